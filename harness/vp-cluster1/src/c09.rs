//! C09 Subscriptions deliver confirmed events in order, once, without gaps.
//!
//! Single-node ClusterActor. Mode A (rf=1): writes go through ExecuteTransaction
//! (the coordinator's flow, confirmed at once). Mode B (rf=3): the harness plays
//! coordinator towards the node through the messages a replica really receives:
//! ReplicateWrite (stored at count 0) followed by ConfirmTransaction with a quorum
//! count, issued in shuffled order with delays, so the watermark moves while
//! history is being read and live delivery goes through the replica's
//! confirmation path. An online monitor sits on the mpsc receiver handed to
//! Subscribe (the client boundary).

use std::collections::{BTreeMap, HashMap, HashSet};
use std::sync::{Arc, Mutex};
use std::time::{Duration, Instant};

use kameo::actor::ActorRef;
use sierradb::StreamId;
use sierradb_cluster::ClusterActor;
use sierradb_cluster::subscription::{FromSequences, FromVersions, Subscribe, SubscriptionEvent, SubscriptionMatcher};
use sierradb_cluster::write::confirm::ConfirmTransaction;
use sierradb_cluster::write::execute::ExecuteTransaction;
use sierradb_cluster::write::replicate::ReplicateWrite;
use tokio::sync::{mpsc, watch};
use uuid::Uuid;
use vpc::model::{Exp, MEvent, MNewEvent, MTxn, Model, Pid};
use vpc::{Args, Report, Rng, json};

use crate::node::*;
use crate::store::*;

struct World {
    model: Model,
    /// per partition: number of leading events whose confirmation has been *issued* (mode A: append invoked)
    issued: BTreeMap<Pid, u64>,
    /// mode B: transactions replicated but not yet confirmed, per partition in order
    confirmed_txn: BTreeMap<usize, bool>,
}

#[derive(Clone, Debug)]
enum Kind {
    Partition(Pid, Option<u64>),
    Partitions(Vec<Pid>, BTreeMap<Pid, u64>, Option<u64>),
    Stream(Pid, u128, String, Option<u64>),
    Streams(Vec<(Pid, u128, String)>, BTreeMap<String, u64>),
}

struct SubSpec {
    kind: Kind,
    window: u64,
    /// broadcast-lag runs: the first full window stays unacknowledged this long, so that the subscription blocks while
    /// more than the broadcast channel's 1000 slots are published
    stall_ms: u64,
}

#[derive(Default)]
struct SubState {
    next_cursor: u64,
    next_pos: BTreeMap<String, u64>, // "p<pid>" or stream name -> next expected position
    delivered: HashSet<u128>,
    last_ack: Option<u64>,
    violations: Vec<(String, String)>,
    count: u64,
    last_delivery: Option<Instant>,
    closed: bool,
    full_windows_held: u64,
    /// the subscriber is deliberately sitting on a full window right now
    holding: bool,
    unacked: u64,
}

fn key_of(kind: &Kind, e: &MEvent) -> Option<String> {
    match kind {
        Kind::Partition(p, _) => (e.partition_id == *p).then(|| format!("p{p}")),
        Kind::Partitions(ps, _, _) => ps.contains(&e.partition_id).then(|| format!("p{}", e.partition_id)),
        Kind::Stream(p, k, s, _) => (e.partition_id == *p && e.partition_key == *k && e.stream == *s).then(|| s.clone()),
        Kind::Streams(ss, _) => ss.iter().any(|(p, k, s)| e.partition_id == *p && e.partition_key == *k && e.stream == *s).then(|| e.stream.clone()),
    }
}
fn pos_of(kind: &Kind, e: &MEvent) -> u64 {
    match kind { Kind::Partition(..) | Kind::Partitions(..) => e.seq, _ => e.version }
}
/// explicit start position for a key, None = "from latest" (no lower bound asserted)
fn start_of(kind: &Kind, key: &str) -> Option<u64> {
    match kind {
        Kind::Partition(_, s) => *s,
        Kind::Partitions(_, m, fb) => { let p: Pid = key[1..].parse().unwrap(); m.get(&p).copied().or(*fb) }
        Kind::Stream(_, _, _, s) => *s,
        Kind::Streams(_, m) => m.get(key).copied(),
    }
}

fn matcher_of(kind: &Kind) -> SubscriptionMatcher {
    match kind {
        Kind::Partition(p, s) => SubscriptionMatcher::Partition { partition_id: *p, from_sequence: *s },
        Kind::Partitions(ps, m, fb) => SubscriptionMatcher::Partitions { partition_ids: ps.iter().copied().collect(), from_sequences: FromSequences::Partitions { from_sequences: m.iter().map(|(k, v)| (*k, *v)).collect::<HashMap<_, _>>(), fallback: *fb } },
        Kind::Stream(_, k, s, v) => SubscriptionMatcher::Stream { partition_key: Uuid::from_u128(*k), stream_id: StreamId::new(s.clone()).unwrap(), from_version: *v },
        Kind::Streams(ss, m) => SubscriptionMatcher::Streams {
            stream_ids: ss.iter().map(|(_, k, s)| (Uuid::from_u128(*k), StreamId::new(s.clone()).unwrap())).collect(),
            from_versions: FromVersions::Streams(ss.iter().filter_map(|(_, k, s)| m.get(s).map(|v| ((Uuid::from_u128(*k), StreamId::new(s.clone()).unwrap()), *v))).collect()),
        },
    }
}

async fn subscriber(world: Arc<Mutex<World>>, spec: Arc<SubSpec>, st: Arc<Mutex<SubState>>, mut rx: mpsc::UnboundedReceiver<SubscriptionEvent>, ack_tx: watch::Sender<Option<u64>>, seed: u64, rf: u8) {
    let mut rng = Rng::new(seed);
    let mut unacked: Vec<u64> = Vec::new();
    let mut hold_until: Option<Instant> = None;
    let mut held_this_window = false;
    let mut holds_done = 0u32;
    loop {
        let ev = match tokio::time::timeout(Duration::from_millis(20), rx.recv()).await {
            Ok(Some(ev)) => Some(ev),
            Ok(None) => { st.lock().unwrap().closed = true; return; }
            Err(_) => None,
        };
        if let Some(ev) = ev {
            match ev {
                SubscriptionEvent::Record { cursor, record, .. } => {
                    // lock order everywhere: world, then subscription state
                    let w = world.lock().unwrap();
                    let mut s = st.lock().unwrap();
                    s.count += 1;
                    s.last_delivery = Some(Instant::now());
                    let mut newv: Vec<(String, String)> = Vec::new();
                    let mut v = |sig: &str, what: String| newv.push((sig.to_string(), what));
                    if cursor != s.next_cursor {
                        v("C09:cursor-not-consecutive", format!("cursor {cursor} after {}", s.next_cursor.wrapping_sub(1)));
                    }
                    s.next_cursor = cursor + 1;
                    // window: never more than `window` deliveries beyond the last acknowledged cursor
                    let outstanding = match s.last_ack { Some(a) => cursor.saturating_sub(a), None => cursor + 1 };
                    if outstanding > spec.window {
                        v("C09:window-exceeded", format!("cursor {cursor} delivered while the last acknowledged cursor is {:?}: {outstanding} outstanding, window {}", s.last_ack, spec.window));
                    }
                    let id = record.event_id.as_u128();
                    match w.model.partition_events(record.partition_id).iter().find(|e| e.event_id == id) {
                        None => v("C09:unknown-event-delivered", format!("event {} (partition {} seq {}) is not a written event", record.event_id, record.partition_id, record.partition_sequence)),
                        Some(m) => {
                            if let Some(d) = diff_event(&record, m, false) { v("C09:wrong-content", d); }
                            match key_of(&spec.kind, m) {
                                None => v("C09:foreign-event-delivered", format!("partition {} stream {} seq {} does not match the subscription", m.partition_id, m.stream, m.seq)),
                                Some(key) => {
                                    let pos = pos_of(&spec.kind, m);
                                    if !s.delivered.insert(id) {
                                        v("C09:duplicate-delivery", format!("{key} position {pos} delivered twice"));
                                    }
                                    let expected = s.next_pos.get(&key).copied().or(start_of(&spec.kind, &key));
                                    match expected {
                                        Some(x) if pos > x => v("C09:gap", format!("{key}: position {pos} delivered, expected {x} (events in between were skipped)")),
                                        Some(x) if pos < x => v("C09:out-of-order-or-below-start", format!("{key}: position {pos} delivered, expected {x}")),
                                        _ => {}
                                    }
                                    s.next_pos.insert(key, pos + 1);
                                    // confirmed at delivery time (by issued confirmations)
                                    let issued = w.issued.get(&m.partition_id).copied().unwrap_or(0);
                                    if m.seq >= issued {
                                        v("C09:unconfirmed-event-delivered", format!("partition {} seq {} delivered while confirmations were issued only for the first {issued} events (rf {rf})", m.partition_id, m.seq));
                                    }
                                }
                            }
                        }
                    }
                    for x in newv { if s.violations.len() < 6 { s.violations.push(x); } }
                    drop(s);
                    drop(w);
                    unacked.push(cursor);
                }
                SubscriptionEvent::Error { error, .. } => {
                    let mut s = st.lock().unwrap();
                    s.violations.push(("C09:subscription-error".into(), format!("subscription ended with error: {error}")));
                    s.closed = true;
                    return;
                }
                SubscriptionEvent::Closed { .. } => { st.lock().unwrap().closed = true; return; }
            }
        }
        // a full window is sometimes left unacknowledged for 100 ms: anything delivered meanwhile exceeds the window
        {
            let mut s = st.lock().unwrap();
            s.unacked = unacked.len() as u64;
            s.holding = hold_until.map(|t| Instant::now() < t).unwrap_or(false);
        }
        if unacked.len() as u64 >= spec.window {
            match hold_until {
                // the first full window of a subscription (nothing acknowledged yet) one time in two, later ones rarely
                None if !held_this_window && (if holds_done == 0 { spec.stall_ms > 0 || rng.chance(1, 2) } else { rng.chance(1, 40) }) => {
                    hold_until = Some(Instant::now() + Duration::from_millis(if holds_done == 0 && spec.stall_ms > 0 { spec.stall_ms } else { 100 }));
                    holds_done += 1;
                    held_this_window = true;
                    { let mut s = st.lock().unwrap(); s.full_windows_held += 1; s.holding = true; }
                    continue;
                }
                Some(t) if Instant::now() < t => continue,
                _ => hold_until = None,
            }
        }
        // acknowledge with random lag and occasional stalls
        // (a broadcast-lag subscriber lets its first window fill up before it acknowledges anything)
        let fill_first = spec.stall_ms > 0 && holds_done == 0 && (unacked.len() as u64) < spec.window;
        if !unacked.is_empty() && !fill_first && (ev_is_none_or(&mut rng) || unacked.len() as u64 >= spec.window) {
            held_this_window = false;
            let upto = if unacked.len() as u64 >= spec.window || rng.chance(1, 2) { *unacked.last().unwrap() } else { unacked[rng.usize_below(unacked.len())] };
            unacked.retain(|c| *c > upto);
            st.lock().unwrap().last_ack = Some(upto);
            let _ = ack_tx.send(Some(upto));
            if rng.chance(1, 25) { tokio::time::sleep(Duration::from_millis(rng.below(40))).await; }
        }
    }
}
fn ev_is_none_or(rng: &mut Rng) -> bool { rng.chance(1, 2) }

fn quiet(spec: &SubSpec, s: &SubState, t0: Instant) -> bool {
    // broadcast-lag runs push thousands of events through a small window on a loaded machine: a much longer silence
    // is required there before "nothing arrives any more" is believed
    let need = Duration::from_secs(if spec.stall_ms > 0 { 20 } else { 3 });
    let silent = s.last_delivery.map(|t| t.elapsed() > need).unwrap_or(t0.elapsed() > need);
    silent && !s.holding && s.unacked < spec.window
}

struct Ctx<'a> {
    node: &'a ActorRef<ClusterActor>,
    rf: u8,
    keys: &'a [(u128, Pid)],
    ids: Ids,
    world: Arc<Mutex<World>>,
    coord: kameo::actor::RemoteActorRef<ClusterActor>,
}

impl Ctx<'_> {
    fn gen_txn(&mut self, rng: &mut Rng, pid: Pid) -> MTxn {
        let (pk, _) = *self.keys.iter().find(|k| k.1 == pid).unwrap();
        let hash = hash_of_key(pk);
        let k = 1 + rng.usize_below(3);
        let w = self.world.lock().unwrap();
        let next = w.model.partition_seq(pid).map(|s| s + 1).unwrap_or(0);
        drop(w);
        let events: Vec<MNewEvent> = (0..k).map(|j| MNewEvent { event_id: self.ids.with_hash(rng, hash), stream: format!("q{pid}-{}", rng.below(2)), expected: Exp::Any, name: "E".into(), timestamp: 1_700_000_000_000_000_000 + next + j as u64, metadata: vec![], payload: rng.bytes(16) }).collect();
        MTxn { partition_key: pk, partition_id: pid, txn_id: self.ids.txn_id(rng, k == 1), events, expected_seq: if next == 0 { Exp::Empty } else { Exp::Exact(next - 1) }, confirmation_count: 0 }
    }

    /// Write one transaction; mode A confirms at once, mode B leaves it unconfirmed.
    async fn write(&mut self, rng: &mut Rng, pid: Pid) -> Result<usize, String> {
        let t = self.gen_txn(rng, pid);
        let n = t.events.len() as u64;
        if self.rf == 1 {
            // confirmation is issued by the append itself
            {
                let mut w = self.world.lock().unwrap();
                w.model.apply(&t).map_err(|e| format!("{e:?}"))?;
                *w.issued.entry(pid).or_insert(0) += n;
            }
            self.node.ask(ExecuteTransaction::new(to_store_txn(&t).unwrap())).await.map_err(|e| format!("ExecuteTransaction: {e}"))?;
        } else {
            {
                let mut w = self.world.lock().unwrap();
                w.model.apply(&t).map_err(|e| format!("{e:?}"))?;
                let ti = w.model.txns.len() - 1;
                w.confirmed_txn.insert(ti, false);
            }
            self.node.ask(ReplicateWrite { coordinator_ref: self.coord.clone(), coordinator_alive_since: u64::MAX, transaction: to_store_txn(&t).unwrap() }).await.map_err(|e| format!("ReplicateWrite: {e}"))?;
        }
        Ok(self.world.lock().unwrap().model.txns.len() - 1)
    }

    /// Mode B: issue the confirmation for transaction `ti` (quorum count).
    async fn confirm(&mut self, ti: usize) -> Result<(), String> {
        let (msg, pid) = {
            let mut w = self.world.lock().unwrap();
            let t = w.model.txns[ti].txn.clone();
            let pid = t.partition_id;
            let members: Vec<MEvent> = w.model.partition_events(pid).iter().filter(|e| e.txn_index == ti).cloned().collect();
            w.confirmed_txn.insert(ti, true);
            // issued prefix = longest prefix of events whose transaction's confirmation has been issued
            let mut c = 0;
            for e in w.model.partition_events(pid) { if *w.confirmed_txn.get(&e.txn_index).unwrap_or(&true) { c += 1 } else { break } }
            w.issued.insert(pid, c);
            (ConfirmTransaction { partition_id: pid, transaction_id: Uuid::from_u128(t.txn_id), event_ids: members.iter().map(|e| Uuid::from_u128(e.event_id)).collect(), confirmation_versions: members.iter().map(|e| e.seq + 1).collect(), confirmation_count: 2 }, pid)
        };
        let _ = pid;
        self.node.ask(msg).await.map_err(|e| format!("ConfirmTransaction: {e}"))
    }
}

async fn run_case(rep: &mut Report, cx: &mut Ctx<'_>, case_seed: u64, parts: &[Pid], lag_mode: bool) {
    let mut rng = Rng::new(case_seed);
    rep.evaluations += 1;
    // ---- history before subscribing ------------------------------------------------------------
    let mut unconfirmed: Vec<usize> = Vec::new();
    for _ in 0..(3 + rng.usize_below(12)) {
        let pid = *rng.pick(parts);
        match cx.write(&mut rng, pid).await { Ok(ti) => { if cx.rf > 1 { unconfirmed.push(ti); } } Err(e) => { rep.inconclusive(format!("history write failed: {e}")); return; } }
    }
    // mode B: confirm most of the history, in order per partition or shuffled
    if cx.rf > 1 {
        let keep = rng.usize_below(3.min(unconfirmed.len()));
        let mut now: Vec<usize> = unconfirmed.drain(..unconfirmed.len() - keep).collect();
        if rng.chance(1, 2) { rng.shuffle(&mut now); }
        for ti in now { if let Err(e) = cx.confirm(ti).await { rep.inconclusive(e); return; } }
    }
    tokio::time::sleep(Duration::from_millis(30)).await;
    // ---- subscriptions ----------------------------------------------------------------------------
    let n_subs = 1 + rng.usize_below(3);
    let mut subs: Vec<(Arc<SubSpec>, Arc<Mutex<SubState>>, tokio::task::JoinHandle<()>)> = Vec::new();
    for sk in 0..n_subs {
        let w = cx.world.lock().unwrap();
        let p0 = *rng.pick(parts);
        let len = |p: Pid| w.model.partition_events(p).len() as u64;
        let confirmed = |p: Pid| w.issued.get(&p).copied().unwrap_or(0);
        let start_for = |rng: &mut Rng, n: u64| -> u64 { match rng.below(4) { 0 => 0, 1 => rng.below(n + 1), 2 => n, _ => n / 2 } };
        let kind = match rng.below(4) {
            0 => Kind::Partition(p0, if rng.chance(1, 6) { None } else { Some(start_for(&mut rng, confirmed(p0))) }),
            1 => {
                let mut ps: Vec<Pid> = parts.to_vec(); rng.shuffle(&mut ps); ps.truncate(1 + rng.usize_below(parts.len()));
                let mut m = BTreeMap::new();
                for p in &ps { if rng.chance(2, 3) { m.insert(*p, start_for(&mut rng, confirmed(*p))); } }
                // a fallback covers the partitions without an explicit start
                let fb = Some(if rng.chance(1, 2) { 0 } else { rng.below(3) });
                Kind::Partitions(ps, m, fb)
            }
            2 => {
                let evs = w.model.partition_events(p0);
                if evs.is_empty() { Kind::Partition(p0, Some(0)) } else {
                    let e = &evs[rng.usize_below(evs.len())];
                    let n = w.model.stream_events(p0, &e.stream).len() as u64;
                    Kind::Stream(p0, e.partition_key, e.stream.clone(), if rng.chance(1, 6) { None } else { Some(start_for(&mut rng, n)) })
                }
            }
            _ => {
                let mut ss: Vec<(Pid, u128, String)> = Vec::new();
                for p in parts { for e in w.model.partition_events(*p) { if !ss.iter().any(|x| x.2 == e.stream) { ss.push((*p, e.partition_key, e.stream.clone())); } } }
                rng.shuffle(&mut ss); ss.truncate(1 + rng.usize_below(3));
                if ss.is_empty() { Kind::Partition(p0, Some(0)) } else {
                    let m: BTreeMap<String, u64> = ss.iter().map(|(p, _, s)| (s.clone(), start_for(&mut rng, w.model.stream_events(*p, s).len() as u64))).collect();
                    Kind::Streams(ss, m)
                }
            }
        };
        let _ = len;
        drop(w);
        let window = if lag_mode { *rng.pick(&[20u64, 200]) } else { *rng.pick(&[1u64, 3, 50, 1000]) };
        let spec = Arc::new(SubSpec { kind, window, stall_ms: if lag_mode { 8000 } else { 0 } });
        let st = Arc::new(Mutex::new(SubState::default()));
        let (ack_tx, ack_rx) = watch::channel(None);
        let (tx, rx) = mpsc::unbounded_channel();
        if cx.node.ask(Subscribe { subscription_id: Uuid::from_u128(case_seed as u128 + sk as u128), matcher: matcher_of(&spec.kind), last_ack_rx: ack_rx, update_tx: tx, window_size: window }).await.is_err() {
            rep.inconclusive("Subscribe failed");
            return;
        }
        let h = tokio::spawn(subscriber(cx.world.clone(), spec.clone(), st.clone(), rx, ack_tx, case_seed ^ (sk as u64 + 3), cx.rf));
        subs.push((spec, st, h));
    }
    // ---- live phase: writes and (mode B) confirmations in shuffled order with delays ------------------
    let n_live = if lag_mode { 1800 + rng.usize_below(600) } else { 10 + rng.usize_below(40) };
    let t_live = Instant::now();
    for i in 0..n_live {
        let pid = *rng.pick(parts);
        match cx.write(&mut rng, pid).await { Ok(ti) => { if cx.rf > 1 { unconfirmed.push(ti); } } Err(e) => { rep.inconclusive(format!("live write failed: {e}")); return; } }
        if cx.rf > 1 && (unconfirmed.len() > 1 + rng.usize_below(5) || i + 1 == n_live) {
            let take = 1 + rng.usize_below(unconfirmed.len());
            let mut now: Vec<usize> = unconfirmed.drain(..take).collect();
            if rng.chance(1, 2) { rng.shuffle(&mut now); }
            for ti in now { if let Err(e) = cx.confirm(ti).await { rep.inconclusive(e); return; } }
        }
        if !lag_mode && rng.chance(1, 4) { tokio::time::sleep(Duration::from_millis(rng.below(8))).await; }
    }
    if lag_mode {
        rep.max("lag_run.live_phase_ms", t_live.elapsed().as_millis() as u64);
        rep.count("lag_run.live_writes", n_live as u64);
        rep.count("lag_run.live_phase_ms_total", t_live.elapsed().as_millis() as u64);
    }
    if cx.rf > 1 {
        let rest: Vec<usize> = unconfirmed.drain(..).collect();
        for ti in rest { if let Err(e) = cx.confirm(ti).await { rep.inconclusive(e); return; } }
    }
    // ---- quiescence: bounded progress -------------------------------------------------------------------
    // everything is confirmed now; the subscriber acknowledges everything; wait until nothing has been
    // delivered for 3 s (or everything expected has arrived)
    let expected_for = |spec: &SubSpec, st: &SubState, w: &World| -> Vec<(String, u64)> {
        let mut missing = Vec::new();
        for evs in w.model.partitions.values() {
            for e in evs {
                let Some(key) = key_of(&spec.kind, e) else { continue };
                let pos = pos_of(&spec.kind, e);
                let lower = match start_of(&spec.kind, &key) { Some(s) => s, None => match st.next_pos.get(&key) { Some(_) => { // from latest: only what follows the first delivered position is owed
                        let first = w.model.partitions.values().flatten().filter(|x| key_of(&spec.kind, x).as_deref() == Some(key.as_str()) && st.delivered.contains(&x.event_id)).map(|x| pos_of(&spec.kind, x)).min().unwrap_or(u64::MAX); first } None => u64::MAX } };
                if pos >= lower && !st.delivered.contains(&e.event_id) { missing.push((key, pos)); }
            }
        }
        missing
    };
    let t0 = Instant::now();
    loop {
        tokio::time::sleep(Duration::from_millis(50)).await;
        let w = cx.world.lock().unwrap();
        let all_done = subs.iter().all(|(spec, st, _)| { let s = st.lock().unwrap(); expected_for(spec, &s, &w).is_empty() || s.closed });
        // quiet = the server has credit (fewer than `window` unacknowledged, subscriber not sitting on a full window)
        // and still nothing has arrived for 3 s
        let idle = subs.iter().all(|(spec, st, _)| quiet(spec, &st.lock().unwrap(), t0));
        drop(w);
        if all_done || (idle && t0.elapsed() > Duration::from_secs(3)) || t0.elapsed() > Duration::from_secs(if lag_mode { 120 } else { 60 }) { break; }
    }
    // ---- verdicts ---------------------------------------------------------------------------------------
    let w = cx.world.lock().unwrap();
    for (spec, st, h) in &subs {
        h.abort();
        let s = st.lock().unwrap();
        let kind_name = match spec.kind { Kind::Partition(_, None) | Kind::Stream(_, _, _, None) => "from-latest", Kind::Partition(..) => "partition", Kind::Partitions(..) => "partitions", Kind::Stream(..) => "stream", Kind::Streams(..) => "streams" };
        let witness = json!({"case_seed": case_seed, "rf": cx.rf, "partitions": parts, "subscription": format!("{:?}", spec.kind), "window": spec.window, "delivered": s.count, "lag_mode": lag_mode});
        for (sig, what) in &s.violations {
            rep.violation(&format!("{sig}:{kind_name}:rf{}", cx.rf), format!("{what} [{:?}, window {}]", spec.kind, spec.window), witness.clone());
        }
        let missing = expected_for(spec, &s, &w);
        if !missing.is_empty() && s.violations.is_empty() && !quiet(spec, &s, t0) {
            // the run was cut off (60 s) while the subscription was still being served or the subscriber was stalling
            rep.count("subscriptions_not_quiescent_at_cutoff", 1);
        } else if !missing.is_empty() && s.violations.is_empty() {
            let path = if cx.rf > 1 { "replica-confirm-path" } else { "coordinator-path" };
            rep.violation(&format!("C09:confirmed-event-never-delivered:{kind_name}:{path}"), format!("{} confirmed matching events were not delivered although everything was acknowledged and nothing arrived for 3 s; first missing {:?} [{:?}, window {}, {} delivered]", missing.len(), missing.first(), spec.kind, spec.window, s.count), witness.clone());
        }
        rep.count("deliveries_checked", s.count);
        rep.count("full_windows_left_unacknowledged_100ms", s.full_windows_held);
        rep.count(&format!("subscriptions.{kind_name}"), 1);
        rep.nontrivial(&(case_seed, format!("{:?}", spec.kind), spec.window));
        if rep.want_sample() && s.count > 3 { rep.sample(witness); }
    }
}

/// Directed window: a stream history longer than one history batch (50 commits) with the watermark in
/// the middle of the first batch; hook H5 holds the subscription at the top of the second batch while
/// the harness confirms the rest, so the watermark moves between two history batches.
async fn long_history_case(rep: &mut Report, cx: &mut Ctx<'_>, case_seed: u64, pid: Pid) {
    let mut rng = Rng::new(case_seed);
    rep.evaluations += 1;
    let (pk, _) = *cx.keys.iter().find(|k| k.1 == pid).unwrap();
    let n = 110 + rng.usize_below(60);
    let hole = 20 + rng.usize_below(25); // first unconfirmed commit, inside the first batch
    let mut tis = Vec::new();
    for _ in 0..n {
        // single stream, single-event transactions
        let hash = hash_of_key(pk);
        let next = cx.world.lock().unwrap().model.partition_seq(pid).map(|s| s + 1).unwrap_or(0);
        let t = MTxn { partition_key: pk, partition_id: pid, txn_id: cx.ids.txn_id(&mut rng, true), events: vec![MNewEvent { event_id: cx.ids.with_hash(&mut rng, hash), stream: format!("long-{pid}"), expected: Exp::Any, name: "E".into(), timestamp: 1_700_000_000_000_000_000 + next, metadata: vec![], payload: rng.bytes(8) }], expected_seq: if next == 0 { Exp::Empty } else { Exp::Exact(next - 1) }, confirmation_count: 0 };
        {
            let mut w = cx.world.lock().unwrap();
            w.model.apply(&t).unwrap();
            let ti = w.model.txns.len() - 1;
            w.confirmed_txn.insert(ti, false);
            tis.push(ti);
        }
        if cx.node.ask(ReplicateWrite { coordinator_ref: cx.coord.clone(), coordinator_alive_since: u64::MAX, transaction: to_store_txn(&t).unwrap() }).await.is_err() { rep.inconclusive("long history: ReplicateWrite failed"); return; }
    }
    for ti in &tis[..hole] { if cx.confirm(*ti).await.is_err() { rep.inconclusive("confirm failed"); return; } }
    tokio::time::sleep(Duration::from_millis(50)).await;
    let spec = Arc::new(SubSpec { kind: Kind::Stream(pid, pk, format!("long-{pid}"), Some(0)), window: 1000, stall_ms: 0 });
    let st = Arc::new(Mutex::new(SubState::default()));
    let (ack_tx, ack_rx) = watch::channel(None);
    let (tx, rx) = mpsc::unbounded_channel();
    crate::hooks::arm("sub.history.batch", None);
    if cx.node.ask(Subscribe { subscription_id: Uuid::from_u128(case_seed as u128), matcher: matcher_of(&spec.kind), last_ack_rx: ack_rx, update_tx: tx, window_size: 1000 }).await.is_err() { rep.inconclusive("Subscribe failed"); return; }
    let h = tokio::spawn(subscriber(cx.world.clone(), spec.clone(), st.clone(), rx, ack_tx, case_seed ^ 5, cx.rf));
    // first batch: let it run
    let mut windows = 0;
    if crate::hooks::wait_held("sub.history.batch", Duration::from_secs(10)) {
        crate::hooks::step("sub.history.batch");
        // second batch reached: the subscription has judged the first batch against the old watermark
        let t0 = Instant::now();
        while crate::hooks::hits("sub.history.batch") < 2 && t0.elapsed() < Duration::from_secs(2) { tokio::time::sleep(Duration::from_millis(2)).await; }
        if crate::hooks::hits("sub.history.batch") >= 2 && crate::hooks::wait_held("sub.history.batch", Duration::from_secs(5)) {
            windows = 1;
            // the watermark moves past everything while the subscription sits between two batches
            for ti in &tis[hole..] { let _ = cx.confirm(*ti).await; }
            tokio::time::sleep(Duration::from_millis(50)).await;
        }
    }
    crate::hooks::disarm_all();
    // (a subscription that stops reading history at the first unreadable commit never reaches a second batch:
    // then the remaining events arrive through live delivery, which is checked just the same)
    if crate::hooks::hits("sub.history.batch") == 0 { rep.inconclusive("hook sub.history.batch was never reached"); }
    rep.count("long_history_cases", 1);
    rep.count("watermark_moved_between_history_batches", windows);
    if windows == 0 { for ti in &tis[hole..] { let _ = cx.confirm(*ti).await; } }
    // quiescence
    let t0 = Instant::now();
    loop {
        tokio::time::sleep(Duration::from_millis(50)).await;
        let s = st.lock().unwrap();
        let done = s.delivered.len() >= n;
        let idle = s.last_delivery.map(|t| t.elapsed() > Duration::from_secs(3)).unwrap_or(t0.elapsed() > Duration::from_secs(3));
        if done || idle || !s.violations.is_empty() || t0.elapsed() > Duration::from_secs(30) { break; }
    }
    h.abort();
    let s = st.lock().unwrap();
    let witness = json!({"case_seed": case_seed, "rf": cx.rf, "mode": "long-history", "partition": pid, "commits": n, "first_unconfirmed_commit": hole, "delivered": s.count});
    for (sig, what) in &s.violations {
        rep.violation(&format!("{sig}:stream:watermark-moved-between-history-batches"), format!("{what} [stream history of {n} commits, watermark at {hole} when subscribing, everything confirmed while the subscription was between its first two history batches]"), witness.clone());
    }
    if s.violations.is_empty() && s.delivered.len() < n {
        rep.violation("C09:confirmed-event-never-delivered:stream:watermark-moved-between-history-batches", format!("{} of {n} confirmed events delivered, nothing arrived for 3 s", s.delivered.len()), witness.clone());
    }
    rep.count("deliveries_checked", s.count);
    rep.nontrivial(&("long-history", case_seed));
}

/// Directed window, multi-partition form: partition P has a history longer than one history batch with the watermark
/// in the middle of its first batch, partition Q a fully confirmed history of 60-120 commits; one Partitions
/// subscription reads both from 0. Hook H5 holds it at the top of its second batch (of either partition, the choice
/// is the subscription's own random one) while the harness confirms the rest of P.
async fn long_partitions_history_case(rep: &mut Report, cx: &mut Ctx<'_>, case_seed: u64, pid: Pid, pid_q: Pid) {
    let mut rng = Rng::new(case_seed);
    rep.evaluations += 1;
    let (pk, _) = *cx.keys.iter().find(|k| k.1 == pid).unwrap();
    let n = 110 + rng.usize_below(60);
    let hole = 20 + rng.usize_below(25); // first unconfirmed commit, inside the first batch
    let mut tis = Vec::new();
    for _ in 0..n {
        // single stream, single-event transactions
        let hash = hash_of_key(pk);
        let next = cx.world.lock().unwrap().model.partition_seq(pid).map(|s| s + 1).unwrap_or(0);
        let t = MTxn { partition_key: pk, partition_id: pid, txn_id: cx.ids.txn_id(&mut rng, true), events: vec![MNewEvent { event_id: cx.ids.with_hash(&mut rng, hash), stream: format!("long-{pid}"), expected: Exp::Any, name: "E".into(), timestamp: 1_700_000_000_000_000_000 + next, metadata: vec![], payload: rng.bytes(8) }], expected_seq: if next == 0 { Exp::Empty } else { Exp::Exact(next - 1) }, confirmation_count: 0 };
        {
            let mut w = cx.world.lock().unwrap();
            w.model.apply(&t).unwrap();
            let ti = w.model.txns.len() - 1;
            w.confirmed_txn.insert(ti, false);
            tis.push(ti);
        }
        if cx.node.ask(ReplicateWrite { coordinator_ref: cx.coord.clone(), coordinator_alive_since: u64::MAX, transaction: to_store_txn(&t).unwrap() }).await.is_err() { rep.inconclusive("long history: ReplicateWrite failed"); return; }
    }
    for ti in &tis[..hole] { if cx.confirm(*ti).await.is_err() { rep.inconclusive("confirm failed"); return; } }
    // partition Q: fully confirmed
    let (pkq, _) = *cx.keys.iter().find(|k| k.1 == pid_q).unwrap();
    let nq = 60 + rng.usize_below(60);
    for _ in 0..nq {
        let hash = hash_of_key(pkq);
        let next = cx.world.lock().unwrap().model.partition_seq(pid_q).map(|s| s + 1).unwrap_or(0);
        let t = MTxn { partition_key: pkq, partition_id: pid_q, txn_id: cx.ids.txn_id(&mut rng, true), events: vec![MNewEvent { event_id: cx.ids.with_hash(&mut rng, hash), stream: format!("longq-{pid_q}"), expected: Exp::Any, name: "E".into(), timestamp: 1_700_000_000_000_000_000 + next, metadata: vec![], payload: rng.bytes(8) }], expected_seq: if next == 0 { Exp::Empty } else { Exp::Exact(next - 1) }, confirmation_count: 0 };
        let ti = {
            let mut w = cx.world.lock().unwrap();
            w.model.apply(&t).unwrap();
            let ti = w.model.txns.len() - 1;
            w.confirmed_txn.insert(ti, false);
            ti
        };
        if cx.node.ask(ReplicateWrite { coordinator_ref: cx.coord.clone(), coordinator_alive_since: u64::MAX, transaction: to_store_txn(&t).unwrap() }).await.is_err() { rep.inconclusive("long history: ReplicateWrite failed"); return; }
        if cx.confirm(ti).await.is_err() { rep.inconclusive("confirm failed"); return; }
    }
    let n_total = n + nq;
    tokio::time::sleep(Duration::from_millis(50)).await;
    let spec = Arc::new(SubSpec { kind: Kind::Partitions(vec![pid, pid_q], [(pid, 0u64), (pid_q, 0u64)].into_iter().collect(), None), window: 1000, stall_ms: 0 });
    let st = Arc::new(Mutex::new(SubState::default()));
    let (ack_tx, ack_rx) = watch::channel(None);
    let (tx, rx) = mpsc::unbounded_channel();
    crate::hooks::arm("sub.history.batch", None);
    if cx.node.ask(Subscribe { subscription_id: Uuid::from_u128(case_seed as u128), matcher: matcher_of(&spec.kind), last_ack_rx: ack_rx, update_tx: tx, window_size: 1000 }).await.is_err() { rep.inconclusive("Subscribe failed"); return; }
    let h = tokio::spawn(subscriber(cx.world.clone(), spec.clone(), st.clone(), rx, ack_tx, case_seed ^ 5, cx.rf));
    // first batch: let it run
    let mut windows = 0;
    if crate::hooks::wait_held("sub.history.batch", Duration::from_secs(10)) {
        crate::hooks::step("sub.history.batch");
        // second batch reached: the subscription has judged the first batch against the old watermark
        let t0 = Instant::now();
        while crate::hooks::hits("sub.history.batch") < 2 && t0.elapsed() < Duration::from_secs(2) { tokio::time::sleep(Duration::from_millis(2)).await; }
        if crate::hooks::hits("sub.history.batch") >= 2 && crate::hooks::wait_held("sub.history.batch", Duration::from_secs(5)) {
            windows = 1;
            // the watermark moves past everything while the subscription sits between two batches
            for ti in &tis[hole..] { let _ = cx.confirm(*ti).await; }
            tokio::time::sleep(Duration::from_millis(50)).await;
        }
    }
    crate::hooks::disarm_all();
    // (a subscription that stops reading history at the first unreadable commit never reaches a second batch:
    // then the remaining events arrive through live delivery, which is checked just the same)
    if crate::hooks::hits("sub.history.batch") == 0 { rep.inconclusive("hook sub.history.batch was never reached"); }
    rep.count("long_partitions_history_cases", 1);
    rep.count("watermark_moved_between_partitions_history_batches", windows);
    if windows == 0 { for ti in &tis[hole..] { let _ = cx.confirm(*ti).await; } }
    // quiescence
    let t0 = Instant::now();
    loop {
        tokio::time::sleep(Duration::from_millis(50)).await;
        let s = st.lock().unwrap();
        let done = s.delivered.len() >= n_total;
        let idle = s.last_delivery.map(|t| t.elapsed() > Duration::from_secs(3)).unwrap_or(t0.elapsed() > Duration::from_secs(3));
        if done || idle || !s.violations.is_empty() || t0.elapsed() > Duration::from_secs(30) { break; }
    }
    h.abort();
    let s = st.lock().unwrap();
    let witness = json!({"case_seed": case_seed, "rf": cx.rf, "mode": "long-partitions-history", "partition_q": pid_q, "partition": pid, "commits": n, "first_unconfirmed_commit": hole, "delivered": s.count});
    for (sig, what) in &s.violations {
        rep.violation(&format!("{sig}:partitions:watermark-moved-between-history-batches"), format!("{what} [Partitions subscription over P (history of {n} commits, watermark at {hole} when subscribing) and Q ({nq} confirmed commits); the rest of P confirmed while the subscription was held at the top of its second history batch]"), witness.clone());
    }
    if s.violations.is_empty() && s.delivered.len() < n_total {
        rep.violation("C09:confirmed-event-never-delivered:partitions:watermark-moved-between-history-batches", format!("{} of {n_total} confirmed events delivered, nothing arrived for 3 s", s.delivered.len()), witness.clone());
    }
    rep.count("deliveries_checked", s.count);
    rep.nontrivial(&("long-partitions-history", case_seed));
}

pub fn run(args: &Args, rep: &mut Report) {
    let rt = runtime(4);
    let thorough = args.tier.is_thorough();
    let replay = args.load_replay();
    let rf: u8 = replay.as_ref().and_then(|w| w["witness"]["rf"].as_u64()).map(|x| x as u8).unwrap_or(if args.shard % 2 == 0 { 1 } else { 3 });
    let mut rng = Rng::new(args.shard_seed());
    let partitions: u16 = 600;
    let cfg = NodeCfg {
        store: StoreCfg { segment_size: 1024 * 1024, buckets: 4, writer_threads: 2, reader_threads: 4, partitions, compression: false, sync_interval_ms: 1, sync_idle_ms: 2, max_batch: 50, min_sync_bytes: 1 },
        rf, replication_buffer_size: 100, buffer_timeout_ms: 2000, catchup_timeout_ms: 1000,
    };
    let dir = fresh_dir(&args.work, &format!("c09-{}", args.shard));
    rt.block_on(async {
        let db = match open_db(&cfg, &dir) { Ok(d) => d, Err(e) => { rep.inconclusive(format!("open: {e}")); return; } };
        let keys = make_keys(&mut rng, partitions, 1);
        let node = spawn_node(&cfg, db.clone());
        if tokio::time::timeout(Duration::from_secs(60), node.wait_for_startup()).await.is_err() { rep.inconclusive("ClusterActor did not start"); return; }
        let coord = node.clone().into_remote_ref().await;
        let world = Arc::new(Mutex::new(World { model: Model::new(4), issued: BTreeMap::new(), confirmed_txn: BTreeMap::new() }));
        let mut cx = Ctx { node: &node, rf, keys: &keys, ids: Ids::new(), world, coord };
        if let Some(w) = replay {
            let w = &w["witness"];
            if w["mode"].as_str() == Some("long-partitions-history") {
                long_partitions_history_case(rep, &mut cx, w["case_seed"].as_u64().unwrap(), 0, 1).await;
                return;
            }
            if w["mode"].as_str() == Some("long-history") {
                long_history_case(rep, &mut cx, w["case_seed"].as_u64().unwrap(), 0).await;
                return;
            }
            let parts: Vec<Pid> = w["partitions"].as_array().unwrap().iter().map(|x| x.as_u64().unwrap() as Pid).collect();
            run_case(rep, &mut cx, w["case_seed"].as_u64().unwrap(), &parts, w["lag_mode"].as_bool().unwrap_or(false)).await;
            return;
        }
        let mut case = 0u64;
        let mut next_part: Pid = 0;
        if rf > 1 {
            // directed: watermark moves between two history batches (hook H5)
            for k in 0..(if thorough { 12 } else { 3 }) {
                long_history_case(rep, &mut cx, args.case_seed(900_000 + k), next_part).await;
                next_part += 1;
            }
            for k in 0..(if thorough { 12 } else { 3 }) {
                long_partitions_history_case(rep, &mut cx, args.case_seed(910_000 + k), next_part, next_part + 1).await;
                next_part += 2;
            }
        }
        while args.time_left() && next_part + 4 < partitions {
            case += 1;
            let k = 1 + rng.usize_below(3) as Pid;
            let parts: Vec<Pid> = (next_part..next_part + k).collect();
            next_part += k;
            // broadcast-lag runs (1800-2400 live writes against the 1000-slot channel while the subscribers leave their
            // first full window unacknowledged for 8 s): every 10th run in thorough, the 5th and every 40th run of a shard in quick
            let lag_mode = if thorough { case % 10 == 0 } else { case % 40 == 5 };
            if lag_mode { rep.count("broadcast_lag_runs", 1); }
            run_case(rep, &mut cx, args.case_seed(case), &parts, lag_mode).await;
            if rep.violations.len() > 10 { break; }
        }
        rep.count("runs", case);
    });
}
