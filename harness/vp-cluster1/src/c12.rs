//! C12 Replicas apply replicated writes in sequence order, each at most once.
//!
//! The harness plays coordinator towards a real single-node ClusterActor through
//! the public message a replica really receives (ReplicateWrite, with the node's
//! own remote ref as coordinator): a planned log of single/multi-event
//! transactions with fixed ids and assigned sequences is delivered from concurrent
//! tasks in shuffled order with duplicates, conflicting twins (same sequence,
//! different transaction), stale re-sends, gaps filled late or never, and bursts
//! beyond the (small) replication buffer. Oracle: an ideal ordered replica.

use std::collections::BTreeMap;
use std::sync::Arc;
use std::time::Duration;

use kameo::actor::ActorRef;
use kameo::error::SendError;
use sierradb::IterDirection;
use sierradb::database::Database;
use sierradb_cluster::ClusterActor;
use sierradb_cluster::write::error::WriteError as CWriteError;
use sierradb_cluster::write::replicate::ReplicateWrite;
use vpc::model::{Exp, MNewEvent, MTxn, Pid};
use vpc::{Args, Report, Rng, json};

use crate::node::*;
use crate::store::*;

#[derive(Clone, Debug)]
struct Delivery {
    slot: usize,
    twin: bool,
    delay_ms: u64,
}

#[derive(Clone, Debug)]
struct Outcome {
    /// wall-clock time between sending the ask and receiving its answer
    elapsed_ms: u64,
    slot: usize,
    twin: bool,
    class: String, // ok / err:<kind> / unanswered
    seqs: Option<(u64, u64)>,
    sent: u64,
    replied: u64,
}

static CLOCK: std::sync::atomic::AtomicU64 = std::sync::atomic::AtomicU64::new(1);
fn tick() -> u64 { CLOCK.fetch_add(1, std::sync::atomic::Ordering::SeqCst) }

fn err_kind(e: &CWriteError) -> &'static str {
    match e {
        CWriteError::BufferEvicted => "buffer-evicted",
        CWriteError::BufferFull => "buffer-full",
        CWriteError::StaleWrite => "stale",
        CWriteError::SequenceConflict => "sequence-conflict",
        CWriteError::WrongExpectedSequence { .. } => "wrong-expected-sequence",
        CWriteError::InvalidSender => "invalid-sender",
        CWriteError::DatabaseOperationFailed(_) => "database-operation-failed",
        CWriteError::PartitionNotOwned { .. } => "partition-not-owned",
        _ => "other",
    }
}

async fn run_schedule(rep: &mut Report, node: &ActorRef<ClusterActor>, db: &Database, keys: &[(u128, Pid)], pid: Pid, case_seed: u64, buffer_size: usize, buffer_timeout_ms: u64) {
    let mut rng = Rng::new(case_seed);
    rep.evaluations += 1;
    let (pk, _) = *keys.iter().find(|k| k.1 == pid).unwrap();
    let hash = hash_of_key(pk);
    let mut ids = Ids { counter: (pid as u64 + 1) << 32 };
    let coord = node.clone().into_remote_ref().await;
    // ---- planned log ---------------------------------------------------------------------------
    let n = 6 + rng.usize_below(30);
    let mut planned: Vec<MTxn> = Vec::new();
    let mut twins: Vec<MTxn> = Vec::new();
    let mut next_seq = 0u64;
    for _ in 0..n {
        let k = 1 + rng.usize_below(3);
        let mk = |ids: &mut Ids, rng: &mut Rng, tag: &str| -> MTxn {
            let events: Vec<MNewEvent> = (0..k).map(|j| MNewEvent { event_id: ids.with_hash(rng, hash), stream: format!("r{pid}-{}", j % 2), expected: Exp::Any, name: tag.into(), timestamp: 1_700_000_000_000_000_000 + next_seq + j as u64, metadata: vec![], payload: rng.bytes(24) }).collect();
            MTxn { partition_key: pk, partition_id: pid, txn_id: ids.txn_id(rng, k == 1), events, expected_seq: if next_seq == 0 { Exp::Empty } else { Exp::Exact(next_seq - 1) }, confirmation_count: 0 }
        };
        planned.push(mk(&mut ids, &mut rng, "planned"));
        twins.push(mk(&mut ids, &mut rng, "twin"));
        next_seq += k as u64;
    }
    // ---- delivery schedule ---------------------------------------------------------------------
    let never: Option<usize> = if rng.chance(1, 3) { Some(1 + rng.usize_below(n - 1)) } else { None }; // a gap that is never filled
    let late: Option<usize> = if rng.chance(1, 2) { Some(rng.usize_below(n)) } else { None };          // a gap filled late
    let mut ds: Vec<Delivery> = Vec::new();
    for slot in 0..n {
        if Some(slot) == never { continue; }
        let copies = 1 + if rng.chance(1, 4) { 1 + rng.usize_below(2) } else { 0 };
        for _ in 0..copies { ds.push(Delivery { slot, twin: false, delay_ms: 0 }); }
        if rng.chance(1, 5) { ds.push(Delivery { slot, twin: true, delay_ms: 0 }); }
    }
    // bounded shuffle: mostly in order with local disorder, sometimes a full shuffle (bursts beyond the buffer)
    if rng.chance(1, 4) { rng.shuffle(&mut ds); } else {
        let w = 2 + rng.usize_below(buffer_size + 3);
        for i in 0..ds.len() { let j = (i + rng.usize_below(w)).min(ds.len() - 1); ds.swap(i, j); }
    }
    for (i, d) in ds.iter_mut().enumerate() {
        d.delay_ms = (i as u64) * rng.below(3);
        if Some(d.slot) == late && !d.twin { d.delay_ms += 150 + rng.below(150); }
    }
    // stale re-sends at the end
    for _ in 0..rng.usize_below(3) { ds.push(Delivery { slot: rng.usize_below(n), twin: rng.chance(1, 3), delay_ms: 400 + rng.below(100) }); }
    // ---- deliver concurrently ------------------------------------------------------------------
    let planned = Arc::new(planned);
    let twins = Arc::new(twins);
    let mut hs = Vec::new();
    for d in ds.clone() {
        let node = node.clone();
        let coord = coord.clone();
        let (planned, twins) = (planned.clone(), twins.clone());
        hs.push(tokio::spawn(async move {
            tokio::time::sleep(Duration::from_millis(d.delay_ms)).await;
            let t = if d.twin { &twins[d.slot] } else { &planned[d.slot] };
            let msg = ReplicateWrite { coordinator_ref: coord, coordinator_alive_since: u64::MAX, transaction: to_store_txn(t).unwrap() };
            let sent = tick();
            let t_sent = std::time::Instant::now();
            let res = tokio::time::timeout(Duration::from_secs(20), node.ask(msg).reply_timeout(Duration::from_secs(15)).send()).await;
            let replied = tick();
            let mut o = match res {
                Ok(Ok(a)) => Outcome { elapsed_ms: 0, slot: d.slot, twin: d.twin, class: "ok".into(), seqs: Some((a.first_partition_sequence, a.last_partition_sequence)), sent: 0, replied: 0 },
                Ok(Err(SendError::HandlerError(SendError::HandlerError(e)))) => Outcome { elapsed_ms: 0, slot: d.slot, twin: d.twin, class: format!("err:{}", err_kind(&e)), seqs: None, sent: 0, replied: 0 },
                Ok(Err(SendError::HandlerError(SendError::Timeout(_)))) => Outcome { elapsed_ms: 0, slot: d.slot, twin: d.twin, class: "unanswered".into(), seqs: None, sent: 0, replied: 0 },
                Ok(Err(SendError::HandlerError(SendError::ActorStopped))) => Outcome { elapsed_ms: 0, slot: d.slot, twin: d.twin, class: "send-error:reply-dropped".into(), seqs: None, sent: 0, replied: 0 },
                Ok(Err(SendError::HandlerError(_))) => Outcome { elapsed_ms: 0, slot: d.slot, twin: d.twin, class: "send-error:forward-failed".into(), seqs: None, sent: 0, replied: 0 },
                Ok(Err(SendError::Timeout(_))) => Outcome { elapsed_ms: 0, slot: d.slot, twin: d.twin, class: "unanswered".into(), seqs: None, sent: 0, replied: 0 },
                Ok(Err(e)) => Outcome { elapsed_ms: 0, slot: d.slot, twin: d.twin, class: format!("send-error:{}", match e { SendError::ActorNotRunning(_) => "not-running", SendError::ActorStopped => "reply-dropped", SendError::MailboxFull(_) => "mailbox-full", _ => "other" }), seqs: None, sent: 0, replied: 0 },
                Err(_) => Outcome { elapsed_ms: 0, slot: d.slot, twin: d.twin, class: "unanswered".into(), seqs: None, sent: 0, replied: 0 },
            };
            o.sent = sent;
            o.replied = replied;
            o.elapsed_ms = t_sent.elapsed().as_millis() as u64;
            o
        }));
    }
    let mut outs: Vec<Outcome> = Vec::new();
    for h in hs { if let Ok(o) = h.await { outs.push(o); } }
    // ---- oracle ----------------------------------------------------------------------------------
    let witness = json!({"case_seed": case_seed, "partition": pid, "slots": n, "buffer_size": buffer_size, "buffer_timeout_ms": buffer_timeout_ms, "never_delivered_slot": never, "late_slot": late,
                         "deliveries": ds.iter().map(|d| json!([d.slot, d.twin, d.delay_ms])).collect::<Vec<_>>(), "outcomes": outs.iter().map(|o| json!([o.slot, o.twin, o.class, o.seqs])).collect::<Vec<_>>()});
    // the real log
    let log = match scan_partition(db, pid, 0, IterDirection::Forward, Consume::Batch(50)).await {
        Ok(g) => g,
        Err(e) => { rep.violation("C12:log-unreadable", format!("partition {pid} log cannot be read: {e}"), witness); return; }
    };
    let flat: Vec<_> = log.iter().flatten().collect();
    // slot boundaries
    let mut starts = Vec::new();
    let mut s = 0u64;
    for t in planned.iter() { starts.push(s); s += t.events.len() as u64; }
    // (1) log content: slot by slot, winner = planned or twin, at the assigned sequences, nothing twice, nothing after a gap
    let mut winners: BTreeMap<usize, bool> = BTreeMap::new(); // slot -> twin?
    let mut pos = 0usize;
    let mut applied_slots = 0;
    for slot in 0..n {
        if pos >= flat.len() { break; }
        let k = planned[slot].events.len();
        let chunk = &flat[pos..(pos + k).min(flat.len())];
        let is = |t: &MTxn| chunk.len() == k && chunk.iter().zip(t.events.iter()).enumerate().all(|(j, (r, e))| r.event_id.as_u128() == e.event_id && r.partition_sequence == starts[slot] + j as u64 && r.transaction_id.as_u128() == t.txn_id);
        if is(&planned[slot]) { winners.insert(slot, false); } else if is(&twins[slot]) { winners.insert(slot, true); } else {
            rep.violation("C12:log-differs-from-plan", format!("partition {pid}: the log at sequences {}.. holds neither the planned transaction of slot {slot} nor its twin (events {:?})", starts[slot], chunk.iter().map(|r| (r.partition_sequence, r.event_name.clone())).collect::<Vec<_>>()), witness);
            return;
        }
        pos += k;
        applied_slots += 1;
    }
    if pos != flat.len() {
        rep.violation("C12:log-has-extra-events", format!("partition {pid}: {} events beyond the planned slots", flat.len() - pos), witness);
        return;
    }
    // the applied prefix must cover every slot up to the first never-delivered one, if all were answered
    let first_gap = (0..n).find(|sl| !ds.iter().any(|d| d.slot == *sl)).unwrap_or(n);
    if applied_slots > first_gap {
        rep.violation("C12:applied-beyond-a-gap", format!("slot {first_gap} was never delivered but {applied_slots} slots are in the log"), witness);
        return;
    }
    if applied_slots < first_gap {
        rep.count("schedules_cut_short_by_refusals", 1);
    }
    // (1b) an in-order write is applied at once: a slot with a single delivery, sent after its
    // predecessor's Ok reply had been received, must be answered Ok
    for o in &outs {
        let only = outs.iter().filter(|x| x.slot == o.slot).count() == 1;
        if !only || o.class == "ok" { continue; }
        let pred_done = o.slot == 0 || outs.iter().any(|p| p.slot == o.slot - 1 && p.class == "ok" && p.replied < o.sent);
        // and nothing beyond it was applied before it was sent that could have made it stale: its predecessor is
        // the last applied slot at that time only if no Ok reply for this or a later slot precedes it (single delivery => none for this slot)
        if pred_done {
            rep.violation("C12:in-order-write-not-applied", format!("slot {} (sequence {}) was delivered once, after its predecessor's Ok reply had been received, and was answered {}", o.slot, starts[o.slot], o.class), witness);
            return;
        }
    }
    // (2) replies
    let mut any_unanswered = false;
    for o in &outs {
        match o.class.as_str() {
            "ok" => {
                let want = (starts[o.slot], starts[o.slot] + planned[o.slot].events.len() as u64 - 1);
                let won = winners.get(&o.slot) == Some(&o.twin);
                if !won {
                    rep.violation("C12:ok-reply-for-a-write-that-is-not-in-the-log", format!("delivery of slot {} (twin={}) was answered Ok{:?} but the log holds {}", o.slot, o.twin, o.seqs, match winners.get(&o.slot) { Some(true) => "its twin", Some(false) => "the planned transaction", None => "nothing at that slot" }), witness);
                    return;
                }
                if o.seqs != Some(want) {
                    rep.violation("C12:ok-reply-with-wrong-sequences", format!("slot {}: Ok{:?}, assigned {:?}", o.slot, o.seqs, want), witness);
                    return;
                }
            }
            "unanswered" | "send-error:reply-dropped" => {
                any_unanswered |= o.class == "unanswered";
                // the replica drops a waiting reply handle only when the buffered write is older than the buffer
                // time-out; a handle dropped (the asker sees ActorStopped) much earlier was lost, e.g. when a
                // duplicate was merged into the buffered write
                if o.class == "send-error:reply-dropped" && o.elapsed_ms < buffer_timeout_ms / 2 {
                    rep.violation("C12:reply-handle-dropped-before-the-buffer-timeout", format!("delivery of slot {} (twin={}) was answered with a dropped reply handle after {} ms (buffer time-out {buffer_timeout_ms} ms): its requester never learns the outcome", o.slot, o.twin, o.elapsed_ms), witness);
                    return;
                }
            }
            _ => {}
        }
    }
    if any_unanswered {
        // 15 s is 30-75 buffer timeouts: every buffered write has had to be answered (applied, refused or evicted) long ago
        let which: Vec<_> = outs.iter().filter(|o| o.class == "unanswered").map(|o| (o.slot, o.twin)).collect();
        let below_next = which.iter().any(|(sl, _)| *sl < applied_slots);
        rep.violation(if below_next { "C12:ask-never-answered:below-next-expected-sequence" } else { "C12:ask-never-answered:buffered-beyond-a-gap" }, format!("deliveries {which:?} were not answered within 15 s (buffer timeout {buffer_timeout_ms} ms); {applied_slots} slots applied"), witness);
        return;
    }
    // (3) settle: the coordinator now re-sends what is missing strictly in order, one write at a time.
    // Each arrives exactly at the next expected sequence and must be applied (a leftover timed-out
    // buffer entry may refuse it once or twice until the replica has cleaned it up).
    let mut settled = 0;
    for slot in applied_slots..n {
        let mut last = String::new();
        let mut ok = false;
        for attempt in 0..5 {
            let msg = ReplicateWrite { coordinator_ref: coord.clone(), coordinator_alive_since: u64::MAX, transaction: to_store_txn(&planned[slot]).unwrap() };
            match tokio::time::timeout(Duration::from_secs(20), node.ask(msg).reply_timeout(Duration::from_secs(15)).send()).await {
                Ok(Ok(a)) => {
                    if (a.first_partition_sequence, a.last_partition_sequence) != (starts[slot], starts[slot] + planned[slot].events.len() as u64 - 1) {
                        rep.violation("C12:ok-reply-with-wrong-sequences", format!("settle: slot {slot} answered Ok({}, {})", a.first_partition_sequence, a.last_partition_sequence), witness.clone());
                        return;
                    }
                    ok = true;
                    break;
                }
                Ok(Err(SendError::HandlerError(SendError::HandlerError(e)))) => last = format!("err:{}", err_kind(&e)),
                Ok(Err(_)) => last = "send-error".into(),
                Err(_) => last = "unanswered".into(),
            }
            let _ = attempt;
            tokio::time::sleep(Duration::from_millis(buffer_timeout_ms * 2)).await;
        }
        if !ok {
            rep.violation(&format!("C12:in-order-write-not-applied:{last}"), format!("settle: slots 0..{slot} are applied; the planned write of slot {slot} (sequence {}) was sent alone, 5 times, {} ms apart, and was never applied (last answer {last})", starts[slot], buffer_timeout_ms * 2), witness.clone());
            return;
        }
        settled += 1;
    }
    rep.count("writes_applied_in_settle_phase", settled);
    // final log: every slot present exactly once
    match scan_partition(db, pid, 0, IterDirection::Forward, Consume::Batch(50)).await {
        Ok(g) => {
            let total: usize = planned.iter().map(|t| t.events.len()).sum();
            let flat2: Vec<_> = g.iter().flatten().collect();
            let gapless = flat2.iter().enumerate().all(|(i, r)| r.partition_sequence == i as u64);
            if flat2.len() != total || !gapless {
                rep.violation("C12:final-log-incomplete-or-duplicated", format!("after settling the log holds {} events, the plan has {total}; gapless={gapless}", flat2.len()), witness.clone());
                return;
            }
        }
        Err(e) => { rep.violation("C12:log-unreadable", format!("{e}"), witness.clone()); return; }
    }
    // evidence
    let released_by_late = late.map(|l| l < applied_slots && ds.iter().any(|d| d.slot > l && d.delay_ms < 150)).unwrap_or(false);
    let merged = ds.iter().filter(|d| !d.twin).map(|d| d.slot).collect::<Vec<_>>().windows(1).count() > 0 && outs.iter().filter(|o| o.class == "ok").count() > applied_slots;
    let conflict = outs.iter().any(|o| o.class == "err:sequence-conflict" || (o.twin && o.class.starts_with("err:")));
    let evicted = outs.iter().any(|o| o.class == "err:buffer-evicted" || o.class == "err:buffer-full");
    for (name, on) in [("late_predecessor_released_buffered_writes", released_by_late), ("duplicate_merged", merged), ("conflict_refused", conflict), ("buffer_eviction_or_full", evicted)] {
        if on { rep.count(&format!("schedules.{name}"), 1); }
    }
    if [released_by_late, merged, conflict, evicted].iter().filter(|x| **x).count() >= 2 {
        rep.nontrivial(&case_seed);
    }
    for o in &outs { rep.count(&format!("replies.{}", o.class), 1); }
    if rep.want_sample() && conflict { rep.sample(witness); }
}

pub fn run(args: &Args, rep: &mut Report) {
    let rt = runtime(4);
    let thorough = args.tier.is_thorough();
    let replay = args.load_replay();
    let seed = args.shard_seed();
    let mut rng = Rng::new(seed);
    let partitions: u16 = if thorough { 600 } else { 120 };
    let buffer_size = replay.as_ref().and_then(|w| w["witness"]["buffer_size"].as_u64()).map(|x| x as usize).unwrap_or_else(|| *rng.pick(&[4usize, 8, 16]));
    let buffer_timeout_ms = replay.as_ref().and_then(|w| w["witness"]["buffer_timeout_ms"].as_u64()).unwrap_or_else(|| *rng.pick(&[200u64, 350, 500]));
    let cfg = NodeCfg {
        store: StoreCfg { segment_size: 1024 * 1024, buckets: 4, writer_threads: 2, reader_threads: 4, partitions, compression: false, sync_interval_ms: 1, sync_idle_ms: 5, max_batch: 50, min_sync_bytes: 1 },
        rf: 3, replication_buffer_size: buffer_size, buffer_timeout_ms, catchup_timeout_ms: buffer_timeout_ms / 2,
    };
    let dir = fresh_dir(&args.work, &format!("c12-{}", args.shard));
    rt.block_on(async {
        let db = match open_db(&cfg, &dir) { Ok(d) => d, Err(e) => { rep.inconclusive(format!("open: {e}")); return; } };
        let keys = make_keys(&mut rng, partitions, 1);
        let node = spawn_node(&cfg, db.clone());
        if tokio::time::timeout(Duration::from_secs(60), node.wait_for_startup()).await.is_err() { rep.inconclusive("ClusterActor did not start"); return; }
        if let Some(w) = replay {
            let w = &w["witness"];
            run_schedule(rep, &node, &db, &keys, w["partition"].as_u64().unwrap() as Pid, w["case_seed"].as_u64().unwrap(), buffer_size, buffer_timeout_ms).await;
            return;
        }
        // several schedules at a time, each on its own fresh partition
        let mut pid: Pid = 0;
        while args.time_left() && pid < partitions {
            run_schedule(rep, &node, &db, &keys, pid, args.case_seed(pid as u64), buffer_size, buffer_timeout_ms).await;
            pid += 1;
            if rep.violations.len() > 6 { break; }
        }
        rep.count("schedules", pid as u64);
    });
}
