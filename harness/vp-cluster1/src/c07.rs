//! C07 Cluster reads only expose the quorum-confirmed prefix of a partition.
//!
//! Partition histories are written directly into a real Database with
//! `Transaction::with_confirmation_count(c)`, c drawn below / at / above quorum
//! per transaction (exactly how a replica stores them). Then a single-node
//! ClusterActor is spawned on that database with that replication factor (its
//! ConfirmationActor derives the watermark from the on-disk counts). Every read
//! message is then checked for *safety only*: nothing with partition sequence
//! >= W may be revealed, where W is the model's watermark = length of the longest
//! prefix whose events carry a count >= rf/2+1. The watermark is then moved by
//! ConfirmTransaction messages and the matrix repeats.

use std::collections::BTreeMap;
use std::time::Duration;

use kameo::actor::ActorRef;
use sierradb::StreamId;
use sierradb_cluster::ClusterActor;
use sierradb_cluster::read::{GetPartitionSequence, GetStreamVersion, ReadEvent, ReadPartition, ReadStream};
use sierradb_cluster::write::confirm::ConfirmTransaction;
use uuid::Uuid;
use vpc::model::{MEvent, Model, Pid};
use vpc::{Args, Report, Rng, json};

use crate::node::*;
use crate::store::*;

fn watermark(events: &[MEvent], counts: &BTreeMap<usize, u8>, q: u8) -> u64 {
    let mut w = 0;
    for e in events {
        if counts[&e.txn_index] >= q { w += 1 } else { break }
    }
    w
}

struct Ctx<'a> {
    rep: &'a mut Report,
    node: ActorRef<ClusterActor>,
    rf: u8,
    phase: &'static str,
    case: vpc::Value,
}

impl Ctx<'_> {
    fn reveal(&mut self, api: &str, pid: Pid, seq: u64, w: u64, detail: String) {
        let rel = if seq == w { "seq-equal-watermark" } else { "seq-above-watermark" };
        self.rep.violation(
            &format!("C07:{api}:returns-{rel}"),
            format!("{api} on partition {pid} revealed partition sequence {seq} although the watermark is {w} (rf {}, phase {}): {detail}", self.rf, self.phase),
            json!({"case": self.case, "partition": pid, "watermark": w, "revealed_sequence": seq, "api": api, "phase": self.phase}),
        );
    }
}

async fn matrix(cx: &mut Ctx<'_>, model: &Model, counts: &BTreeMap<usize, u8>, pid: Pid, rng: &mut Rng) {
    let q = cx.rf / 2 + 1;
    let evs = model.partition_events(pid);
    if evs.is_empty() { return; }
    let w = watermark(evs, counts, q);
    let end = evs.len() as u64;
    let confirmed_after = evs.iter().skip(w as usize + 1).any(|e| counts[&e.txn_index] >= q);
    if (w as usize) < evs.len() && confirmed_after {
        // an unconfirmed event sits exactly at W and confirmed events exist after it
        cx.rep.nontrivial(&(cx.case["seed"].as_u64(), pid, w, cx.phase));
    }
    // ---- event lookup for every event ---------------------------------------------------
    for e in evs {
        cx.rep.evaluations += 1;
        match cx.node.ask(ReadEvent::new(Uuid::from_u128(e.event_id))).await {
            Ok(Some(r)) => {
                if r.partition_sequence >= w {
                    cx.reveal("ReadEvent", pid, r.partition_sequence, w, format!("event count {} quorum {q}", r.confirmation_count));
                }
            }
            Ok(None) => {}
            Err(err) => { cx.rep.count("read_errors", 1); let _ = err; }
        }
    }
    // ---- partition scans ----------------------------------------------------------------
    let mut starts = vec![0, w.saturating_sub(1), w, w + 1, end];
    starts.dedup();
    for start in starts {
        for end_seq in [None, Some(w.saturating_sub(1)), Some(w), Some(w + 1)] {
            let count = *rng.pick(&[1u64, 2, 100]);
            cx.rep.evaluations += 1;
            match cx.node.ask(ReadPartition { partition_id: pid, start_sequence: start, end_sequence: end_seq, count }).await {
                Ok(res) => {
                    for r in &res.events {
                        if r.partition_sequence >= w {
                            cx.reveal("ReadPartition", pid, r.partition_sequence, w, format!("start {start} end {end_seq:?} count {count}; event count {}", r.confirmation_count));
                            break;
                        }
                    }
                }
                Err(_) => cx.rep.count("read_errors", 1),
            }
        }
    }
    // ---- streams ------------------------------------------------------------------------
    let mut streams: Vec<&str> = evs.iter().map(|e| e.stream.as_str()).collect();
    streams.sort();
    streams.dedup();
    for s in streams {
        let sid = StreamId::new(s.to_string()).unwrap();
        let sevs = model.stream_events(pid, s);
        let max_visible_version = sevs.iter().filter(|e| e.seq < w).map(|e| e.version).max();
        for start in [0u64, rng.below(sevs.len() as u64 + 1)] {
            for end_v in [None, Some(rng.below(sevs.len() as u64 + 1))] {
                let count = *rng.pick(&[1u64, 2, 100]);
                cx.rep.evaluations += 1;
                match cx.node.ask(ReadStream { partition_id: pid, stream_id: sid.clone(), start_version: start, end_version: end_v, count }).await {
                    Ok(res) => {
                        for r in &res.events {
                            if r.partition_sequence >= w {
                                cx.reveal("ReadStream", pid, r.partition_sequence, w, format!("stream {s} start {start} end {end_v:?} count {count}"));
                                break;
                            }
                        }
                    }
                    Err(_) => cx.rep.count("read_errors", 1),
                }
            }
        }
        cx.rep.evaluations += 1;
        match cx.node.ask(GetStreamVersion { partition_id: pid, stream_id: sid.clone() }).await {
            Ok(Some(v)) => {
                if max_visible_version.map(|m| v > m).unwrap_or(true) {
                    // the version belongs to an event at or beyond the watermark
                    let seq = sevs.iter().find(|e| e.version == v).map(|e| e.seq).unwrap_or(u64::MAX);
                    cx.reveal("GetStreamVersion", pid, seq, w, format!("stream {s}: version {v} returned, highest version below the watermark is {max_visible_version:?}"));
                }
            }
            Ok(None) => {}
            Err(_) => cx.rep.count("read_errors", 1),
        }
    }
    cx.rep.evaluations += 1;
    match cx.node.ask(GetPartitionSequence { partition_id: pid }).await {
        Ok(Some(s)) => {
            if s >= w { cx.reveal("GetPartitionSequence", pid, s, w, "latest sequence query".into()); }
        }
        Ok(None) => {}
        Err(_) => cx.rep.count("read_errors", 1),
    }
}

pub fn run(args: &Args, rep: &mut Report) {
    let rt = runtime(4);
    let seed = match args.load_replay() { Some(w) => w["witness"]["case"]["seed"].as_u64().unwrap(), None => args.shard_seed() };
    let mut rng = Rng::new(seed);
    // replication factor fixed per process (one ClusterActor per process)
    let rf = match args.load_replay() { Some(w) => w["witness"]["case"]["rf"].as_u64().unwrap() as u8, None => [1u8, 2, 3, 5][(args.shard % 4) as usize] };
    let q = rf / 2 + 1;
    let thorough = args.tier.is_thorough();
    let partitions: u16 = if thorough { 256 } else { 96 };
    let cfg = NodeCfg {
        store: StoreCfg { segment_size: 256 * 1024, buckets: 4, writer_threads: 2, reader_threads: 4, partitions, compression: rng.chance(1, 2), sync_interval_ms: 1, sync_idle_ms: 5, max_batch: 50, min_sync_bytes: 1 },
        rf, replication_buffer_size: 100, buffer_timeout_ms: 1000, catchup_timeout_ms: 500,
    };
    let case = json!({"seed": seed, "rf": rf, "partitions": partitions});
    let dir = fresh_dir(&args.work, &format!("c07-{}", args.shard));
    rt.block_on(async {
        let db = match open_db(&cfg, &dir) { Ok(d) => d, Err(e) => { rep.inconclusive(format!("open: {e}")); return; } };
        // ---- histories, stored the way a replica stores them ---------------------------------
        let mut model = Model::new(cfg.store.buckets);
        let mut counts: BTreeMap<usize, u8> = BTreeMap::new();
        let mut g = Gen::new(&mut rng, &cfg.store, 1, 2);
        let opts = GenOpts { wrong_pct: 0, max_events: 3, big_payload_pct: 10, max_payload: 9000, key_conflict_pct: 0 };
        for pid in 0..partitions {
            let n = 3 + rng.usize_below(9);
            // partitions differ in shape: fully confirmed prefix then holes, or a hole at the very start
            let p_conf = *rng.pick(&[30u64, 60, 60, 85]);
            let mut made = 0;
            let mut guard = 0;
            g.only_key = g.keys.iter().position(|k| k.1 == pid);
            while made < n && guard < 200 {
                guard += 1;
                let mut t = g.txn(&mut rng, &model, &opts);
                if t.partition_id != pid { continue; }
                let c = if rng.below(100) < p_conf { q + rng.below((rf - q + 1) as u64) as u8 } else { rng.below(q as u64) as u8 };
                t.confirmation_count = c;
                if model.check(&t).is_err() { continue; }
                match db.append_events(to_store_txn(&t).unwrap()).await {
                    Ok(_) => { model.apply(&t).unwrap(); counts.insert(model.txns.len() - 1, c); made += 1; }
                    Err(e) => { rep.inconclusive(format!("history append failed: {e}")); return; }
                }
            }
        }
        rep.count("events_written", model.total_events() as u64);
        let node = spawn_node(&cfg, db.clone());
        if tokio::time::timeout(Duration::from_secs(60), node.wait_for_startup()).await.is_err() {
            rep.inconclusive("ClusterActor did not start within 60 s");
            return;
        }
        let mut cx = Ctx { rep, node, rf, phase: "watermark-from-disk", case: case.clone() };
        for pid in 0..partitions {
            if !args.time_left() { cx.rep.note("time budget reached in phase 1"); break; }
            matrix(&mut cx, &model, &counts, pid, &mut rng).await;
        }
        // ---- move the watermark through the public confirmation path, repeat --------------------
        for round in 0..2 {
            cx.phase = if round == 0 { "after-confirm-round-1" } else { "after-confirm-round-2" };
            for pid in 0..partitions {
                if !args.time_left() { break; }
                let evs: Vec<MEvent> = model.partition_events(pid).to_vec();
                let w = watermark(&evs, &counts, q);
                // confirm some transactions at / after W (shuffled), leave others unconfirmed
                let mut txs: Vec<usize> = evs.iter().filter(|e| e.seq >= w && counts[&e.txn_index] < q).map(|e| e.txn_index).collect();
                txs.dedup();
                rng.shuffle(&mut txs);
                for ti in txs.into_iter().take(1 + rng.usize_below(3)) {
                    let members: Vec<&MEvent> = evs.iter().filter(|e| e.txn_index == ti).collect();
                    let newc = q + rng.below((rf - q + 1) as u64) as u8;
                    let msg = ConfirmTransaction {
                        partition_id: pid,
                        transaction_id: Uuid::from_u128(members[0].txn_id),
                        event_ids: members.iter().map(|e| Uuid::from_u128(e.event_id)).collect(),
                        confirmation_versions: members.iter().map(|e| e.seq + 1).collect(),
                        confirmation_count: newc,
                    };
                    match cx.node.ask(msg).await {
                        Ok(()) => { counts.insert(ti, newc); cx.rep.count("confirm_messages", 1); }
                        Err(e) => { cx.rep.count("confirm_errors", 1); cx.rep.note(format!("ConfirmTransaction error: {e:?}")); }
                    }
                }
            }
            // let the confirmation actor drain (it is told, not asked); safety does not depend on it
            tokio::time::sleep(Duration::from_millis(100)).await;
            for pid in 0..partitions {
                if !args.time_left() { cx.rep.note("time budget reached in a confirm round"); break; }
                matrix(&mut cx, &model, &counts, pid, &mut rng).await;
            }
        }
        if cx.rep.want_sample() {
            let pid = 0;
            let evs = model.partition_events(pid);
            cx.rep.sample(json!({"case": case, "partition": pid, "events": evs.iter().map(|e| json!({"seq": e.seq, "stream": e.stream, "count": counts[&e.txn_index]})).collect::<Vec<_>>(), "model_watermark": watermark(evs, &counts, q)}));
        }
    });
}
