//! C08 The confirmed watermark is sound, monotone and survives restarts.
//!
//! (a) `PartitionConfirmationState::update_confirmation` and
//!     `BucketConfirmationManager::update_confirmation` are driven with
//!     permutations of per-transaction updates (multi-event = several versions per
//!     message), duplicates and stale lower counts, rf in {1,2,3,5}; the watermark
//!     is read after every step. Oracle: arithmetic on the delivered multiset.
//! (b) restart: counts are written to the event records (Database::set_confirmations)
//!     before they are reported, as the real flow does; at a random step the manager
//!     is dropped and the confirmation directory is rewritten to each crash state
//!     of persist_bucket_state (temp file at each prefix length / complete, previous
//!     removed, current renamed to previous, temp renamed to current); then
//!     new + initialize(database) must not lower any watermark.

use std::collections::{BTreeMap, HashSet};
use std::path::{Path, PathBuf};

use sierradb_cluster::confirmation::{BucketConfirmationManager, PartitionConfirmationState};
use smallvec::SmallVec;
use uuid::Uuid;
use vpc::model::{MEvent, Model};
use vpc::{Args, Report, Rng, json};

use crate::store::*;

#[derive(Clone, Debug)]
struct Update {
    versions: Vec<u64>, // 1-based versions (sequence + 1) of one transaction
    count: u8,
}

/// Transactions over versions 1..=n and a delivery list with duplicates and stale lower counts.
fn gen_updates(rng: &mut Rng, rf: u8) -> (Vec<Vec<u64>>, Vec<u8>, Vec<Update>) {
    let q = rf / 2 + 1;
    let n_txn = 2 + rng.usize_below(9);
    let mut txns = Vec::new();
    let mut v = 1u64;
    for _ in 0..n_txn {
        let k = 1 + rng.below(3);
        txns.push((v..v + k).collect::<Vec<u64>>());
        v += k;
    }
    // final (highest) count per transaction; most reach quorum
    let finals: Vec<u8> = (0..n_txn).map(|_| if rng.chance(3, 4) { q + rng.below((rf - q + 1) as u64) as u8 } else { rng.below(q as u64) as u8 }).collect();
    let mut ups = Vec::new();
    for (i, t) in txns.iter().enumerate() {
        // the real coordinator reports the count it has when quorum is reached, later higher counts;
        // deliveries may be duplicated, and stale lower counts may arrive after higher ones
        ups.push(Update { versions: t.clone(), count: finals[i] });
        for _ in 0..rng.below(3) {
            ups.push(Update { versions: t.clone(), count: rng.below(finals[i] as u64 + 1) as u8 });
        }
        if rng.chance(1, 3) {
            ups.push(Update { versions: t.clone(), count: finals[i] });
        }
    }
    rng.shuffle(&mut ups);
    (txns, finals, ups)
}

fn prefix(maxcount: &BTreeMap<u64, u8>, q: u8) -> u64 {
    let mut w = 0;
    while maxcount.get(&(w + 1)).map(|c| *c >= q).unwrap_or(false) {
        w += 1;
    }
    w
}

fn inversions_and_dups(ups: &[Update]) -> (bool, bool) {
    let inv = ups.windows(2).any(|w| w[0].versions[0] > w[1].versions[0]);
    let mut seen = HashSet::new();
    let dup = ups.iter().any(|u| !seen.insert((u.versions[0], u.count)));
    (inv, dup)
}

fn pure_case(rep: &mut Report, case_seed: u64) {
    let mut rng = Rng::new(case_seed);
    let rf = *rng.pick(&[1u8, 2, 3, 5]);
    let q = rf / 2 + 1;
    let (_txns, _finals, ups) = gen_updates(&mut rng, rf);
    let mut st = PartitionConfirmationState::new(7);
    let mut maxcount: BTreeMap<u64, u8> = BTreeMap::new();
    let mut last_w = 0u64;
    rep.evaluations += 1;
    let witness = || json!({"case_seed": case_seed, "mode": "pure", "rf": rf, "updates": ups.iter().map(|u| json!({"versions": u.versions, "count": u.count})).collect::<Vec<_>>()});
    let mut stale_seen = false;
    for (i, u) in ups.iter().enumerate() {
        for v in &u.versions {
            let m = maxcount.entry(*v).or_insert(0);
            if u.count < *m { stale_seen = true; }
            *m = (*m).max(u.count);
            st.update_confirmation(*v, u.count, rf);
        }
        let w = st.confirmed_watermark.get();
        let p = prefix(&maxcount, q);
        if w < last_w {
            rep.violation("C08:watermark-decreased", format!("watermark went from {last_w} to {w} at update #{i}"), witness());
            return;
        }
        if w > p {
            rep.violation("C08:watermark-exceeds-quorum-prefix", format!("after update #{i} the watermark is {w} but the longest prefix reported with a quorum count so far is {p}"), witness());
            return;
        }
        last_w = w;
    }
    let p = prefix(&maxcount, q);
    if last_w != p {
        let cause = if stale_seen { "after-stale-lower-count" } else { "no-stale-count-involved" };
        rep.violation(&format!("C08:final-watermark-below-quorum-prefix:{cause}"), format!("every confirmation was delivered; the longest quorum-confirmed prefix is {p} but the watermark is {last_w}"), witness());
    }
    let (inv, dup) = inversions_and_dups(&ups);
    if inv && dup {
        rep.nontrivial(&("pure", case_seed));
    }
    if rep.want_sample() {
        rep.sample(json!({"case": witness(), "final_watermark": last_w, "quorum_prefix": p}));
    }
}

fn copy_dir(src: &Path, dst: &Path) {
    let _ = std::fs::remove_dir_all(dst);
    std::fs::create_dir_all(dst).unwrap();
    for e in std::fs::read_dir(src).unwrap() {
        let e = e.unwrap();
        let to = dst.join(e.file_name());
        if e.file_type().unwrap().is_dir() { copy_dir(&e.path(), &to); } else { std::fs::copy(e.path(), &to).unwrap(); }
    }
}

/// (b): real database, real manager, crash states of the persistence sequence.
async fn restart_case(rep: &mut Report, args: &Args, case_seed: u64) {
    let mut rng = Rng::new(case_seed);
    let rf = *rng.pick(&[1u8, 2, 3, 5]);
    let q = rf / 2 + 1;
    let cfg = StoreCfg { segment_size: 256 * 1024, buckets: 1, writer_threads: 1, reader_threads: 2, partitions: 2, compression: false, sync_interval_ms: 1, sync_idle_ms: 5, max_batch: 50, min_sync_bytes: 1 };
    let dir = fresh_dir(&args.work, &format!("c08-{}-{case_seed}", args.shard));
    let Ok(db) = cfg.open(&dir) else { rep.inconclusive("open failed"); return; };
    rep.evaluations += 1;
    // events stored with count 0 (as a replica stores them)
    let mut model = Model::new(1);
    let mut g = Gen::new(&mut rng, &cfg, 1, 2);
    let opts = GenOpts { wrong_pct: 0, max_events: 3, big_payload_pct: 0, max_payload: 0, key_conflict_pct: 0 };
    let mut offsets: BTreeMap<usize, SmallVec<[u64; 4]>> = BTreeMap::new();
    for _ in 0..(6 + rng.usize_below(14)) {
        let t = g.txn(&mut rng, &model, &opts);
        if model.check(&t).is_err() { continue; }
        match db.append_events(to_store_txn(&t).unwrap()).await {
            Ok(r) => { model.apply(&t).unwrap(); offsets.insert(model.txns.len() - 1, r.offsets.clone()); }
            Err(e) => { rep.inconclusive(format!("append failed: {e}")); return; }
        }
    }
    let parts: HashSet<u16> = (0..cfg.partitions).collect();
    let mut mgr = BucketConfirmationManager::new(dir.clone(), 1, rf, parts.clone());
    if let Err(e) = mgr.initialize(&db).await { rep.inconclusive(format!("initialize failed: {e}")); return; }
    // delivery plan: per transaction a final count, reported in shuffled order; disk first, then report
    let mut plan: Vec<(usize, u8)> = (0..model.txns.len()).map(|ti| (ti, if rng.chance(3, 4) { q + rng.below((rf - q + 1) as u64) as u8 } else { rng.below(q as u64) as u8 })).collect();
    rng.shuffle(&mut plan);
    let conf_dir = dir.join("buckets").join("00000").join("confirmation");
    let cur = conf_dir.join("bucket_state.current.dat");
    let prev = conf_dir.join("bucket_state.previous.dat");
    let tmp = conf_dir.join("bucket_state.temp.dat");
    let crash_at = 1 + rng.usize_below(plan.len());
    let persist_points = [crash_at / 3, 2 * crash_at / 3];
    let mut disk_count: BTreeMap<usize, u8> = BTreeMap::new();
    for (step, (ti, c)) in plan.iter().enumerate() {
        if step == crash_at { break; }
        let t = &model.txns[*ti];
        let pid = t.txn.partition_id;
        let members: Vec<&MEvent> = model.partition_events(pid).iter().filter(|e| e.txn_index == *ti).collect();
        if *c > *disk_count.get(ti).unwrap_or(&0) {
            if let Err(e) = db.set_confirmations(pid, offsets[ti].clone(), Uuid::from_u128(t.txn.txn_id), *c).await {
                rep.inconclusive(format!("set_confirmations failed: {e}"));
                return;
            }
            disk_count.insert(*ti, *c);
        }
        for m in &members {
            if let Err(e) = mgr.update_confirmation(pid, m.seq + 1, *c).await { rep.inconclusive(format!("update_confirmation: {e}")); return; }
        }
        if persist_points.contains(&step) {
            let _ = mgr.persist_bucket_state(0).await;
        }
    }
    let before: BTreeMap<u16, u64> = (0..cfg.partitions).map(|p| (p, mgr.get_watermark(p).map(|w| w.get()).unwrap_or(0))).collect();
    // the bytes a third persist would write = state at crash time
    let older = std::fs::read(&prev).ok();
    let old = std::fs::read(&cur).ok();
    let _ = mgr.persist_bucket_state(0).await;
    let new = std::fs::read(&cur).unwrap_or_default();
    drop(mgr);
    // crash states of the persistence sequence
    let mut states: Vec<(String, Option<Vec<u8>>, Option<Vec<u8>>, Option<Vec<u8>>)> = Vec::new(); // (name, temp, current, previous)
    let mut lens: Vec<usize> = vec![0, 1, 2, new.len() / 2, new.len().saturating_sub(1)];
    for _ in 0..3 { lens.push(rng.usize_below(new.len().max(1))); }
    lens.sort(); lens.dedup();
    for p in lens {
        states.push((format!("temp-prefix"), Some(new[..p.min(new.len())].to_vec()), old.clone(), older.clone()));
    }
    states.push(("temp-complete".into(), Some(new.clone()), old.clone(), older.clone()));
    states.push(("previous-removed".into(), Some(new.clone()), old.clone(), None));
    states.push(("current-renamed-to-previous".into(), Some(new.clone()), None, old.clone()));
    states.push(("temp-renamed-to-current".into(), None, Some(new.clone()), old.clone()));
    // also: every state file lost or damaged (restart must fall back to the on-disk counts)
    states.push(("all-state-files-missing".into(), None, None, None));
    states.push(("current-corrupt-previous-missing".into(), None, Some(new[..new.len() / 2].to_vec()), None));
    db.shutdown().await;
    drop(db);
    let base = args.work.join(format!("c08-base-{}-{case_seed}", args.shard));
    copy_dir(&dir, &base);
    for (name, t, c, p) in states {
        if !opens_left() { break; }
        copy_dir(&base, &dir);
        for (path, content) in [(&tmp, &t), (&cur, &c), (&prev, &p)] {
            let _ = std::fs::remove_file(path);
            if let Some(b) = content { std::fs::write(path, b).unwrap(); }
        }
        let Ok(db2) = cfg.open(&dir) else { rep.inconclusive("reopen failed"); return; };
        let mut m2 = BucketConfirmationManager::new(dir.clone(), 1, rf, parts.clone());
        rep.evaluations += 1;
        rep.count(&format!("crash_states.{name}"), 1);
        rep.nontrivial(&(case_seed, name.clone(), t.as_ref().map(|x| x.len())));
        match m2.initialize(&db2).await {
            Err(e) => rep.violation(&format!("C08:restart:initialize-failed:{name}"), format!("initialize after crash state {name} failed: {e}"), json!({"case_seed": case_seed, "mode": "restart", "state": name})),
            Ok(()) => {
                for (pid, wb) in &before {
                    let wa = m2.get_watermark(*pid).map(|w| w.get()).unwrap_or(0);
                    if wa < *wb {
                        rep.violation(&format!("C08:restart:watermark-lower-after-restart:{name}"), format!("partition {pid}: watermark {wb} before the crash, {wa} after re-initialisation from crash state {name} (rf {rf})"), json!({"case_seed": case_seed, "mode": "restart", "state": name, "rf": rf}));
                    }
                }
            }
        }
        drop(m2);
        db2.shutdown().await;
    }
    let _ = std::fs::remove_dir_all(&dir);
    let _ = std::fs::remove_dir_all(&base);
    let _ = PathBuf::new();
}

pub fn run(args: &Args, rep: &mut Report) {
    if let Some(w) = args.load_replay() {
        let w = &w["witness"];
        let cs = w["case_seed"].as_u64().unwrap();
        if w["mode"].as_str() == Some("restart") {
            runtime(2).block_on(restart_case(rep, args, cs));
        } else {
            pure_case(rep, cs);
        }
        return;
    }
    let thorough = args.tier.is_thorough();
    // pure part: a fixed number of sequences per shard
    let n_pure = if thorough { 400_000 } else { 15_000 };
    for i in 0..n_pure {
        pure_case(rep, args.case_seed(i));
        if rep.violations.len() > 6 { break; }
    }
    rep.count("pure_sequences", n_pure);
    let rt = runtime(2);
    let mut case = 0;
    while args.time_left() && opens_left() {
        case += 1;
        rt.block_on(restart_case(rep, args, args.case_seed(10_000_000 + case)));
        if rep.violations.len() > 12 { break; }
    }
    rep.count("restart_cases", case);
}
