//! One in-process single-node cluster: real Database + real ClusterActor.

use std::collections::HashSet;
use std::path::Path;
use std::time::Duration;

use kameo::actor::{ActorRef, Spawn};
use libp2p::identity::Keypair;
use sierradb::database::Database;
use sierradb_cluster::{ClusterActor, ClusterArgs};

use crate::store::StoreCfg;

pub struct NodeCfg {
    pub store: StoreCfg,
    pub rf: u8,
    pub replication_buffer_size: usize,
    pub buffer_timeout_ms: u64,
    pub catchup_timeout_ms: u64,
}

pub fn open_db(cfg: &NodeCfg, dir: &Path) -> Result<Database, String> {
    cfg.store.open(dir)
}

pub fn spawn_node(cfg: &NodeCfg, db: Database) -> ActorRef<ClusterActor> {
    ClusterActor::spawn(ClusterArgs {
        keypair: Keypair::generate_ed25519(),
        database: db,
        listen_addrs: vec![],
        node_count: 1,
        node_index: 0,
        bucket_count: cfg.store.buckets,
        partition_count: cfg.store.partitions,
        replication_factor: cfg.rf,
        assigned_partitions: HashSet::from_iter(0..cfg.store.partitions),
        heartbeat_timeout: Duration::from_millis(6_000),
        heartbeat_interval: Duration::from_millis(1_000),
        replication_buffer_size: cfg.replication_buffer_size,
        replication_buffer_timeout: Duration::from_millis(cfg.buffer_timeout_ms),
        replication_catchup_timeout: Duration::from_millis(cfg.catchup_timeout_ms),
        mdns: false,
    })
}
