//! vp-cluster1: single-node in-process ClusterActor and confirmation state
//! (C07 C08 C09 C12). kameo's remote layer is initialised once per process, so a
//! shard process hosts exactly one ClusterActor and runs its cases on fresh
//! partitions of that node.

#[allow(dead_code)]
#[path = "../../vp-store/src/store.rs"]
mod store;
#[allow(dead_code)]
#[path = "../../vp-store/src/hooks.rs"]
mod hooks;

mod c07;
mod c08;
mod c09;
mod c12;
mod node;

use vpc::{Args, Report};

fn main() {
    let args = Args::parse();
    let mut rep = Report::new(&args.prop);
    vpc::quiet_panics();
    store::raise_fd_limit();
    hooks::install();
    sierradb_cluster::verif::install(Box::new(|name, args| hooks::on_point(name, args)));
    hooks::set_recording(false);
    match args.prop.as_str() {
        "C07" => c07::run(&args, &mut rep),
        "C08" => c08::run(&args, &mut rep),
        "C09" => c09::run(&args, &mut rep),
        "C12" => c12::run(&args, &mut rep),
        p => rep.inconclusive(format!("vp-cluster1 does not serve {p}")),
    }
    rep.write(&args);
    std::process::exit(0);
}
