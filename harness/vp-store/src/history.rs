//! Generated histories against the reference model (C01, C02).
//!
//! C01 oracle: every acknowledged append is (a) preceded in the global event
//! order by an fsync covering its end offset in its segment, (b) returned with
//! identical content by event lookup, transaction read, stream scan and partition
//! scan started right after the acknowledgement, (c) the same after reopen;
//! failed appends never appear.
//! C02 oracle: accept/reject and assigned numbers equal the model's; a rejected
//! append changes nothing observable; latest-version/sequence queries agree.

use std::collections::BTreeMap;

use sierradb::IterDirection;
use sierradb::database::Database;
use vpc::model::{Exp, MEvent, MNewEvent, MTxn, Model, Pid};
use vpc::{Args, Report, Rng, Value, json};

use crate::hooks;
use crate::store::*;

#[derive(Clone, Debug)]
struct HistCfg {
    prop: String,
    store: StoreCfg,
    n_ops: usize,
    genopts: GenOpts,
    invalid_pct: u64, // C01: out-of-range timestamps / oversized transactions
    reopen_pct: u64,
}

#[derive(Clone, Debug)]
enum Invalid {
    None,
    Timestamp(usize), // event position carrying a timestamp >= 2^63
    Oversized,
}

struct Run<'a> {
    rep: &'a mut Report,
    cfg: HistCfg,
    case_seed: u64,
    ops: Vec<Value>,
    // C01 bookkeeping
    failed_partial_on_bucket: BTreeMap<u16, bool>,
    last_segment_on_bucket: BTreeMap<u16, u64>,
    nontrivial: bool,
    kinds_ok: std::collections::BTreeSet<&'static str>,
    kinds_bad: std::collections::BTreeSet<&'static str>,
    crossed_rollover_or_reopen: bool,
}

impl Run<'_> {
    fn viol(&mut self, sig: String, what: String) {
        let w = json!({"case_seed": self.case_seed, "prop": self.cfg.prop, "store": self.cfg.store.to_json(), "n_ops": self.cfg.n_ops,
                       "ops_tail": self.ops.iter().rev().take(12).rev().collect::<Vec<_>>()});
        self.rep.violation(&sig, what, w);
    }
}

fn find_txn_written(log: &[hooks::Ev], txn_id: u128) -> Option<&hooks::Ev> {
    let hi = (txn_id >> 64) as u64;
    let lo = txn_id as u64;
    log.iter().rev().find(|e| e.name == "txn_written" && e.args[4] == hi && e.args[5] == lo)
}

async fn observable_state(db: &Database, model: &Model, t: &MTxn) -> Vec<String> {
    // what a client can see about everything the transaction touches
    let mut v = Vec::new();
    let pid = t.partition_id;
    v.push(format!("pseq={:?}", db.get_partition_sequence(pid).await.map(|x| x.map(|y| y.sequence)).map_err(|e| e.to_string())));
    let from = model.partition_seq(pid).map(|x| x.saturating_sub(2)).unwrap_or(0);
    match scan_partition(db, pid, from, IterDirection::Forward, Consume::Batch(16)).await {
        Ok(g) => v.push(format!("ptail={:?}", g.iter().flatten().map(|e| (e.partition_sequence, e.event_id.as_u128() as u64)).collect::<Vec<_>>())),
        Err(e) => v.push(format!("ptail=err {e}")),
    }
    let mut streams: Vec<&str> = t.events.iter().map(|e| e.stream.as_str()).collect();
    streams.sort();
    streams.dedup();
    for s in streams {
        let sid = sierradb::StreamId::new(s.to_string()).unwrap();
        v.push(format!("{s}.ver={:?}", db.get_stream_version(pid, &sid).await.map(|x| x.map(|y| y.version)).map_err(|e| e.to_string())));
        let from = model.stream_version(pid, s).map(|x| x.saturating_sub(2)).unwrap_or(0);
        match scan_stream(db, pid, s, from, IterDirection::Forward, Consume::Batch(16)).await {
            Ok(g) => v.push(format!("{s}.tail={:?}", g.iter().flatten().map(|e| (e.stream_version, e.event_id.as_u128() as u64)).collect::<Vec<_>>())),
            Err(e) => v.push(format!("{s}.tail=err {e}")),
        }
    }
    v
}

async fn run_history(run: &mut Run<'_>, args: &Args) {
    let mut rng = Rng::new(run.case_seed);
    let cfg = run.cfg.clone();
    let is_c01 = cfg.prop == "C01";
    let dir = fresh_dir(&args.work, &format!("h-{}-{}", args.shard, run.case_seed));
    let mut db = match cfg.store.open(&dir) {
        Ok(db) => db,
        Err(e) => {
            run.rep.inconclusive(format!("initial open failed: {e}"));
            return;
        }
    };
    let mut model = Model::new(cfg.store.buckets);
    let mut tgen = Gen::new(&mut rng, &cfg.store, 2, 2);
    let mut acks = 0u64;
    let mut reads = 0u64;
    hooks::clear_log();

    for step in 0..cfg.n_ops {
        let k = rng.below(100);
        if k < cfg.reopen_pct && step > 0 {
            // ---- reopen: every acknowledged transaction must still be there --------
            db.shutdown().await;
            drop(db);
            if std::env::var_os("VP_REOPEN_DELAY").is_some() {
                std::thread::sleep(std::time::Duration::from_millis(300));
            }
            run.ops.push(json!({"op": "reopen"}));
            if !opens_left() {
                run.rep.note("stopped a history early: per-process open budget reached");
                let _ = std::fs::remove_dir_all(&dir);
                return;
            }
            db = match cfg.store.open(&dir) {
                Ok(db) => db,
                Err(e) => {
                    run.viol(format!("{}:reopen-failed", cfg.prop), format!("reopen after clean shutdown failed: {e}"));
                    let _ = std::fs::remove_dir_all(&dir);
                    return;
                }
            };
            hooks::clear_log();
            run.crossed_rollover_or_reopen = true;
            let mut out = Vec::new();
            reads += audit_all(&db, &model, &mut out).await;
            if std::env::var_os("VP_DEBUG").is_some() && !out.is_empty() {
                for ((_, s), st) in &model.streams {
                    let pid = st.events[0].0;
                    let want: Vec<(u64, u64)> = model.stream_events(pid, s).iter().map(|e| (e.version, e.seq)).collect();
                    for how in [Consume::Batch(50), Consume::Batch(1), Consume::Next] {
                        let got = scan_stream(&db, pid, s, 0, IterDirection::Forward, how).await.map(|g| g.iter().map(|grp| grp.iter().map(|e| (e.stream_version, e.partition_sequence, e.offset)).collect::<Vec<_>>()).collect::<Vec<_>>());
                        eprintln!("DEBUG stream {s} pid {pid} how {how:?}\n   want {want:?}\n   got  {got:?}");
                    }
                    for from in 0..want.len() as u64 + 1 {
                        let got = scan_stream(&db, pid, s, from, IterDirection::Forward, Consume::Batch(50)).await.map(|g| g.iter().flatten().map(|e| e.stream_version).collect::<Vec<_>>());
                        eprintln!("DEBUG   from {from}: {got:?}");
                    }
                }
                // on-disk layout
                for b in 0..cfg.store.buckets {
                    let segs = std::fs::read_dir(dir.join("buckets").join(format!("{b:05}")).join("segments")).unwrap();
                    let mut names: Vec<_> = segs.map(|e| e.unwrap().path()).collect();
                    names.sort();
                    for sp in names {
                        let mut r = sierradb::bucket::segment::BucketSegmentReader::open(sp.join("data.evts"), None).unwrap();
                        let mut it = r.iter();
                        let mut line = String::new();
                        while let Ok(Some(rec)) = it.next_record() {
                            match rec {
                                sierradb::bucket::segment::Record::Event(e) => line.push_str(&format!(" {}@{}:{}v{}s{}", if sierradb::id::get_uuid_flag(&e.transaction_id) {"S"} else {"M"}, e.offset, &*e.stream_id, e.stream_version, e.partition_sequence)),
                                sierradb::bucket::segment::Record::Commit(c) => line.push_str(&format!(" C@{}", c.offset)),
                            }
                        }
                        let sizes: Vec<u64> = ["index.eidx","partition.pidx","stream.sidx"].iter().map(|f| std::fs::metadata(sp.join(f)).map(|m| m.len()).unwrap_or(0)).collect();
                        eprintln!("DEBUG segment {sp:?} idx sizes {sizes:?}:{line}");
                    }
                }
            }
            for f in out.into_iter().take(3) {
                run.viol(format!("{}:after-reopen:{}:{}", cfg.prop, f.api, f.class), format!("after reopen: {}: {}", f.api, f.what));
            }
            continue;
        }
        // ---- pipelined pair (C02): a valid append A and, right behind it without waiting, an append B to the
        // same stream under ANOTHER partition key (same partition) expecting exactly the version A produces.
        // Whichever of the two the writer handles first, A is valid and B is not (behind A its key mismatches, in
        // front of A its version is wrong) - but B is validated while A's event may still be unsynced.
        if cfg.prop == "C02" && rng.chance(1, 7) && !model.streams.is_empty() {
            let cand: Vec<(String, u128, Pid, u64)> = model.streams.iter().map(|((_, s), st)| (s.clone(), st.key, st.events[0].0, st.events.len() as u64 - 1)).collect();
            let (stream, pk, pid, v) = cand[rng.usize_below(cand.len())].clone();
            let hash = hash_of_key(pk);
            let foreign = pk ^ 1; // same embedded partition hash, another key
            let a_exp = if rng.chance(1, 2) { Exp::Exact(v) } else { Exp::Any };
            let ea = MNewEvent { event_id: tgen.ids.with_hash(&mut rng, hash), stream: stream.clone(), expected: a_exp, name: "PA".into(), timestamp: 1_700_000_000_000_000_000, metadata: vec![], payload: rng.bytes(24) };
            let eb = MNewEvent { event_id: tgen.ids.with_hash(&mut rng, hash), stream: stream.clone(), expected: Exp::Exact(v + 1), name: "PB".into(), timestamp: 1_700_000_000_000_000_000, metadata: vec![], payload: rng.bytes(24) };
            let ta = MTxn { partition_key: pk, partition_id: pid, txn_id: tgen.ids.txn_id(&mut rng, true), events: vec![ea], expected_seq: Exp::Any, confirmation_count: 0 };
            let tb = MTxn { partition_key: foreign, partition_id: pid, txn_id: tgen.ids.txn_id(&mut rng, true), events: vec![eb], expected_seq: Exp::Any, confirmation_count: 0 };
            if let (Ok(sa), Ok(sb), true, true) = (to_store_txn(&ta), to_store_txn(&tb), model.check(&ta).is_ok(), model.check(&tb).is_err()) {
                let (ra, rb) = tokio::join!(db.append_events(sa), db.append_events(sb));
                run.rep.count("pipelined_pairs", 1);
                run.ops.push(json!({"op": "pipelined-pair", "a": txn_json(&ta), "b": txn_json(&tb),
                                    "store_a": match &ra { Ok(r) => format!("Ok seq {}", r.first_partition_sequence), Err(e) => format!("Err {e}") },
                                    "store_b": match &rb { Ok(r) => format!("Ok seq {}", r.first_partition_sequence), Err(e) => format!("Err {e}") }}));
                if let Ok(r) = &rb {
                    run.viol("C02:invalid-append-accepted:partition-key-mismatch:pipelined-behind-another-append".into(), format!("store accepted (seq {}) an append to stream {stream} under a partition key other than the stream's, sent right behind a valid append to that stream", r.first_partition_sequence));
                    break;
                }
                match &ra {
                    Ok(r) => {
                        let a = model.apply(&ta).expect("model accepted");
                        acks += 1;
                        if a.first_seq != r.first_partition_sequence || a.last_seq != r.last_partition_sequence {
                            run.viol("C02:accepted-with-wrong-numbers:pipelined".into(), format!("pipelined append got sequence {}, the model assigns {}", r.first_partition_sequence, a.first_seq));
                            break;
                        }
                    }
                    Err(e) => {
                        run.viol(format!("C02:valid-append-rejected:{}:pipelined-in-front-of-an-invalid-append", write_error_class(e)), format!("model accepts but the store refused: {e}"));
                        break;
                    }
                }
                continue;
            }
        }
        // ---- append ------------------------------------------------------------------
        let mut t = tgen.txn(&mut rng, &model, &cfg.genopts);
        let mut invalid = Invalid::None;
        if rng.below(100) < cfg.invalid_pct {
            if rng.chance(3, 4) {
                let pos = match rng.below(3) { 0 => 0, 1 => t.events.len() / 2, _ => t.events.len() - 1 };
                t.events[pos].timestamp = match rng.below(3) { 0 => 1u64 << 63, 1 => u64::MAX, _ => (1u64 << 63) + rng.below(1 << 40) };
                invalid = Invalid::Timestamp(pos);
            } else {
                // estimate exceeds the segment
                let n = cfg.store.segment_size + 1 + rng.usize_below(4096);
                t.events[0].payload = vec![b'x'; n];
                invalid = Invalid::Oversized;
            }
        }
        let expect = model.check(&t);
        let store_txn = match to_store_txn(&t) {
            Ok(x) => x,
            Err(e) => {
                run.rep.inconclusive(format!("generator produced a transaction the constructor rejects: {e}"));
                break;
            }
        };
        let bucket = model.bucket_of(t.partition_id);
        let before = if expect.is_err() || !matches!(invalid, Invalid::None) { Some(observable_state(&db, &model, &t).await) } else { None };
        let inv = hooks::tick();
        let res = db.append_events(store_txn).await;
        let ack = hooks::tick();
        let should_accept = expect.is_ok() && matches!(invalid, Invalid::None);
        run.ops.push(json!({"op": "append", "txn": txn_json(&t), "invalid": format!("{invalid:?}"), "model_accepts": should_accept,
                            "store": match &res { Ok(r) => format!("Ok seq {}..{}", r.first_partition_sequence, r.last_partition_sequence), Err(e) => format!("Err {e}") }}));
        if run.ops.len() > 60 {
            run.ops.remove(0);
        }
        // classify expectation kinds for the C02 non-triviality rule
        for e in &t.events {
            if should_accept { run.kinds_ok.insert(e.expected.kind()); } else if let Err(vpc::model::Reject::WrongVersion { expected, .. }) = &expect { run.kinds_bad.insert(expected.kind()); }
        }
        match (&res, should_accept) {
            (Ok(r), true) => {
                let a = model.apply(&t).expect("model accepted");
                acks += 1;
                let ti = model.txns.len() - 1;
                if !is_c01 {
                    let log = hooks::snapshot_log();
                    if let Some(w) = find_txn_written(&log, t.txn_id) {
                        let (b, seg) = (w.args[0] as u16, w.args[1]);
                        if run.last_segment_on_bucket.insert(b, seg).map(|s| s != seg).unwrap_or(false) {
                            run.crossed_rollover_or_reopen = true;
                            run.rep.count("rollovers_crossed", 1);
                        }
                    }
                    if let Some(d) = diff_assigned(r, &a) {
                        run.viol("C02:accepted:wrong-assignment".into(), format!("accepted append got {d}"));
                    }
                    let mut out = Vec::new();
                    let streams: Vec<(Pid, String)> = a.stream_versions.keys().map(|s| (t.partition_id, s.clone())).collect();
                    reads += audit_latest(&db, &model, &[t.partition_id], &streams, &mut out).await;
                    for f in out.into_iter().take(2) {
                        run.viol(format!("C02:latest-query-after-accept:{}:{}", f.api, f.class), f.what);
                    }
                } else {
                    // (a) fsync before ack
                    let log = hooks::snapshot_log();
                    match find_txn_written(&log, t.txn_id) {
                        None => run.rep.inconclusive("hook txn_written not observed for an acknowledged append"),
                        Some(w) => {
                            let (b, seg, _start, end) = (w.args[0], w.args[1], w.args[2], w.args[3]);
                            let covered = log.iter().any(|e| e.name == "fsync" && e.args[0] == b && e.args[1] == seg && e.args[2] >= end && e.seq < ack);
                            run.rep.count("acks_joined_with_fsync", 1);
                            let first_in_segment = run.last_segment_on_bucket.get(&(b as u16)).map(|s| *s != seg).unwrap_or(false);
                            run.last_segment_on_bucket.insert(b as u16, seg);
                            if first_in_segment {
                                run.rep.count("acks_first_in_new_segment", 1);
                                run.nontrivial = true;
                                run.crossed_rollover_or_reopen = true;
                            }
                            if !covered {
                                let ctx = if first_in_segment { "first-append-after-rollover" } else { "same-segment" };
                                run.viol(format!("C01:acked-before-fsync:{ctx}"), format!("append acknowledged at logical time {ack} (invoked {inv}) but no fsync of bucket {b} segment {seg} covering end offset {end} was observed before it"));
                            }
                            if *run.failed_partial_on_bucket.get(&(b as u16)).unwrap_or(&false) {
                                run.nontrivial = true;
                                run.rep.count("acks_after_failed_partial_write", 1);
                            }
                        }
                    }
                    // (b) immediately readable, every API
                    let mut out = Vec::new();
                    reads += audit_txn(&db, &model, ti, &mut out).await;
                    if std::env::var_os("VP_DEBUG").is_some() && !out.is_empty() {
                        let pid = t.partition_id;
                        let n = model.partition_events(pid).len() as u64;
                        for from in 0..n + 1 {
                            let got = scan_partition(&db, pid, from, IterDirection::Forward, Consume::Batch(50)).await.map(|g| g.iter().flatten().take(3).map(|e| (e.partition_sequence, e.offset)).collect::<Vec<_>>());
                            eprintln!("DEBUG partition {pid} from {from}: {got:?}");
                        }
                        eprintln!("DEBUG log tail: {:?}", hooks::snapshot_log().iter().rev().take(14).map(|e| (e.name, e.args.clone())).collect::<Vec<_>>());
                    }
                    let after_failed = *run.failed_partial_on_bucket.get(&bucket).unwrap_or(&false);
                    for f in out.into_iter().take(3) {
                        let ctx = if after_failed { "after-failed-partial-write" } else { "plain" };
                        run.viol(format!("C01:ack-not-readable:{}:{}:{ctx}", f.api, f.class), format!("right after the acknowledgement: {}: {}", f.api, f.what));
                    }
                    run.failed_partial_on_bucket.insert(bucket, false);
                }
            }
            (Err(e), true) => {
                let class = write_error_class(e);
                if is_c01 {
                    // not this property's oracle; keep the model in step with the store
                    run.rep.count("valid_append_refused", 1);
                } else {
                    run.viol(format!("C02:valid-append-rejected:{class}"), format!("model accepts but the store refused: {e}"));
                }
            }
            (Ok(r), false) => {
                let why = match (&invalid, &expect) {
                    (Invalid::Timestamp(_), _) => "out-of-range-timestamp".to_string(),
                    (Invalid::Oversized, _) => "oversized".to_string(),
                    (_, Err(vpc::model::Reject::WrongVersion { expected, .. })) => format!("wrong-version-{}", expected.kind()),
                    (_, Err(vpc::model::Reject::KeyMismatch { .. })) => "partition-key-mismatch".to_string(),
                    (_, Err(vpc::model::Reject::WrongSequence { expected, .. })) => format!("wrong-sequence-{}", expected.kind()),
                    _ => "unknown".to_string(),
                };
                run.viol(format!("{}:invalid-append-accepted:{why}", cfg.prop), format!("store accepted (seq {}..{}) an append the model rejects ({why})", r.first_partition_sequence, r.last_partition_sequence));
                // the store and the model have diverged: stop this history
                break;
            }
            (Err(_), false) => {
                run.rep.count("appends_rejected_as_expected", 1);
                if let Invalid::Timestamp(pos) = invalid {
                    if pos > 0 && expect.is_ok() {
                        run.failed_partial_on_bucket.insert(bucket, true);
                        run.rep.count("failed_partial_writes", 1);
                    }
                }
                // a rejected append changes nothing observable
                if let Some(b) = before {
                    let after = observable_state(&db, &model, &t).await;
                    reads += after.len() as u64;
                    if after != b {
                        let diff: Vec<String> = b.iter().zip(after.iter()).filter(|(x, y)| x != y).map(|(x, y)| format!("{x} -> {y}")).take(3).collect();
                        let kind = match invalid { Invalid::None => "version-or-key-conflict", Invalid::Timestamp(_) => "out-of-range-timestamp", Invalid::Oversized => "oversized" };
                        run.viol(format!("{}:rejected-append-changed-state:{kind}", cfg.prop), format!("observable state changed after a rejected append: {diff:?}"));
                    }
                }
            }
        }
        if run.rep.violations.len() > 10 {
            break;
        }
    }
    // final whole-model audit, then once more after reopen
    let mut out = Vec::new();
    reads += audit_all(&db, &model, &mut out).await;
    for f in out.into_iter().take(3) {
        run.viol(format!("{}:final-audit:{}:{}", cfg.prop, f.api, f.class), format!("final audit: {}: {}", f.api, f.what));
    }
    db.shutdown().await;
    drop(db);
    if is_c01 && opens_left() {
        match cfg.store.open(&dir) {
            Ok(db2) => {
                let mut out = Vec::new();
                reads += audit_all(&db2, &model, &mut out).await;
                for f in out.into_iter().take(3) {
                    run.viol(format!("C01:after-reopen:{}:{}", f.api, f.class), format!("after final reopen: {}: {}", f.api, f.what));
                }
                db2.shutdown().await;
            }
            Err(e) => run.viol("C01:reopen-failed".into(), format!("reopen after clean shutdown failed: {e}")),
        }
    }
    run.rep.count("acks", acks);
    run.rep.count("reads_compared", reads);
    run.rep.count("events_in_model", model.total_events() as u64);
    let _ = std::fs::remove_dir_all(&dir);
}

fn hist_cfg(prop: &str, rng: &mut Rng) -> HistCfg {
    let store = StoreCfg::random(rng);
    if prop == "C01" {
        let max_payload = (store.segment_size / 3).min(60_000);
        HistCfg {
            prop: prop.into(),
            store,
            n_ops: 20 + rng.usize_below(100),
            genopts: GenOpts { wrong_pct: 10, max_events: 5, big_payload_pct: 30, max_payload, key_conflict_pct: 4 },
            invalid_pct: 12,
            reopen_pct: 3,
        }
    } else {
        HistCfg {
            prop: prop.into(),
            store,
            n_ops: 40 + rng.usize_below(80),
            genopts: GenOpts { wrong_pct: 30, max_events: 6, big_payload_pct: 12, max_payload: 30_000, key_conflict_pct: 8 },
            invalid_pct: 0,
            reopen_pct: 3,
        }
    }
}

fn run_case(rep: &mut Report, args: &Args, rt: &tokio::runtime::Runtime, case_seed: u64) {
    let mut rng = Rng::new(case_seed ^ 0x5151);
    let cfg = hist_cfg(&args.prop, &mut rng);
    rep.evaluations += 1;
    let mut run = Run {
        rep,
        cfg: cfg.clone(),
        case_seed,
        ops: Vec::new(),
        failed_partial_on_bucket: BTreeMap::new(),
        last_segment_on_bucket: BTreeMap::new(),
        nontrivial: false,
        kinds_ok: Default::default(),
        kinds_bad: Default::default(),
        crossed_rollover_or_reopen: false,
    };
    rt.block_on(run_history(&mut run, args));
    let nt = if cfg.prop == "C01" {
        run.nontrivial
    } else {
        // >= 3 of the 4 expectation kinds both satisfied and violated, and a rollover or reopen crossed
        run.kinds_ok.len() >= 3 && run.kinds_bad.len() >= 3 && run.crossed_rollover_or_reopen
    };
    let sample = if run.rep.want_sample() && nt { Some(json!({"case_seed": case_seed, "store": cfg.store.to_json(), "n_ops": cfg.n_ops, "last_ops": run.ops.iter().rev().take(4).collect::<Vec<_>>()})) } else { None };
    if nt {
        run.rep.nontrivial(&case_seed);
    }
    if let Some(s) = sample {
        rep.sample(s);
    }
}

pub fn run(args: &Args, rep: &mut Report) {
    let rt = runtime(3);
    if let Some(w) = args.load_replay() {
        let cs = w["witness"]["case_seed"].as_u64().unwrap();
        run_case(rep, args, &rt, cs);
        return;
    }
    let mut case = 0u64;
    while args.time_left() && opens_left() {
        case += 1;
        run_case(rep, args, &rt, args.case_seed(case));
        if rep.violations.len() > 10 {
            break;
        }
    }
    rep.count("histories", case);
    rep.count("sync_hook_events", crate::hooks::SYNCED_EVENTS.load(std::sync::atomic::Ordering::Relaxed));
    let _ = (Exp::Any, None::<MEvent>);
}
