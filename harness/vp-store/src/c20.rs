//! C20 Every append completes within a bounded time.
//!
//! "Bounded" is decided on logical progress, not wall clock: an append whose
//! transaction was written (hook txn_written), for which an fsync covering its
//! end offset in its segment was observed (or the segment was sealed by a
//! rollover, which syncs it), after which 50 further flush_poll / fsync events of
//! the writer passed, and which still has not returned, is a violation; so is an
//! append with no covering sync after 200 flush_poll events. A generous
//! wall-clock watchdog only makes the run inconclusive.

use std::collections::BTreeMap;
use std::sync::atomic::{AtomicBool, AtomicU64, Ordering};
use std::sync::{Arc, Mutex};
use std::time::{Duration, Instant};

use vpc::model::{Exp, MNewEvent, MTxn};
use vpc::{Args, Report, Rng, json};

use crate::hooks;
use crate::store::*;

struct Open {
    txn_id: u128,
    inv: u64,
    started: Instant,
}

async fn run_case(rep: &mut Report, args: &Args, case_seed: u64) {
    let mut rng = Rng::new(case_seed);
    // 1 case in 8: 64 buckets on 64 writer threads (per-thread queue capacity max(1000/64, 16) = 16) with a crowd of
    // clients on one partition, so that a writer's queue is full when the syncer polls it
    let crowd = rng.chance(1, 8);
    let buckets = if crowd { 64 } else { *rng.pick(&[1u16, 2, 4]) };
    let mut cfg = StoreCfg {
        segment_size: *rng.pick(&[128 * 1024usize, 128 * 1024, 1024 * 1024]),
        buckets,
        writer_threads: if crowd { 64 } else { *rng.pick(&[1u16, buckets]) },
        reader_threads: 2,
        partitions: buckets,
        compression: rng.chance(1, 2),
        // 0 = sync on every write, u64::MAX = Duration::MAX (no syncer thread in either case)
        sync_interval_ms: *rng.pick(&[0u64, 1, 3, 10, 50, 200, 1000, u64::MAX]),
        sync_idle_ms: *rng.pick(&[1u64, 10, 50, 500]),
        max_batch: *rng.pick(&[1usize, 10, 50, 1000]),
        min_sync_bytes: *rng.pick(&[1usize, 4096, 65_536, 1 << 20]),
    };
    if crowd && (1..10).contains(&cfg.sync_interval_ms) {
        cfg.sync_interval_ms = 10; // 64 threads polled every millisecond in 16 parallel shards only measures the machine
    }
    if cfg.sync_interval_ms == u64::MAX {
        // without a periodic sync only the batch thresholds trigger one: keep a threshold that every write reaches
        cfg.max_batch = 1;
    }
    let no_syncer = cfg.sync_interval_ms == 0 || cfg.sync_interval_ms == u64::MAX;
    let dir = fresh_dir(&args.work, &format!("c20-{}-{case_seed}", args.shard));
    let Ok(db) = cfg.open(&dir) else { rep.inconclusive("open failed"); return; };
    hooks::clear_log();
    rep.evaluations += 1;
    let clients = if crowd { 100 + rng.usize_below(200) } else { *rng.pick(&[1usize, 2, 8, 32, 64]) };
    let per_client = (2 + rng.usize_below(10)).min(400 / clients + 2);
    let mut keys = make_keys(&mut rng, cfg.partitions, 1);
    if crowd {
        keys.truncate(1 + rng.usize_below(2));
        rep.count("crowd_cases", 1);
    }
    if no_syncer {
        rep.count("cases_without_syncer_thread", 1);
    }
    let open: Arc<Mutex<BTreeMap<u64, Open>>> = Arc::new(Mutex::new(BTreeMap::new()));
    let done = Arc::new(AtomicU64::new(0));
    let lat_max = Arc::new(AtomicU64::new(0));
    let stop = Arc::new(AtomicBool::new(false));
    let mut hs = Vec::new();
    for ck in 0..clients {
        let db = db.clone();
        let open = open.clone();
        let done = done.clone();
        let lat_max = lat_max.clone();
        let keys = keys.clone();
        let mut crng = Rng::new(case_seed ^ (ck as u64 * 31 + 5));
        let seg = cfg.segment_size;
        hs.push(tokio::spawn(async move {
            let mut ids = Ids { counter: (ck as u64 + 1) << 36 };
            for n in 0..per_client {
                let (pk, pid) = keys[crng.usize_below(keys.len())];
                let hash = hash_of_key(pk);
                let k = 1 + crng.usize_below(3);
                let events: Vec<MNewEvent> = (0..k).map(|j| MNewEvent {
                    event_id: ids.with_hash(&mut crng, hash), stream: format!("c{ck}"), expected: Exp::Any, name: "E".into(),
                    timestamp: 1_700_000_000_000_000_000 + n as u64 * 8 + j as u64, metadata: vec![],
                    payload: { let sz = match crng.below(10) { 0 => seg / 5, 1..=2 => 4000 + crng.usize_below(9000), _ => crng.usize_below(300) }; crng.bytes(sz) },
                }).collect();
                let t = MTxn { partition_key: pk, partition_id: pid, txn_id: ids.txn_id(&mut crng, k == 1), events, expected_seq: Exp::Any, confirmation_count: 0 };
                let key = hooks::tick();
                open.lock().unwrap().insert(key, Open { txn_id: t.txn_id, inv: key, started: Instant::now() });
                let t0 = Instant::now();
                let _ = db.append_events(to_store_txn(&t).unwrap()).await; // success or error: both are completions
                lat_max.fetch_max(t0.elapsed().as_millis() as u64, Ordering::Relaxed);
                open.lock().unwrap().remove(&key);
                done.fetch_add(1, Ordering::Relaxed);
                // bursts followed by silence: the last waiter depends on the syncer thread alone
                if crng.chance(1, 6) { tokio::time::sleep(Duration::from_millis(crng.below(30))).await; }
            }
        }));
    }
    // monitor
    let witness = json!({"case_seed": case_seed, "store": cfg.to_json(), "clients": clients, "appends_per_client": per_client});
    let total = (clients * per_client) as u64;
    let t0 = Instant::now();
    let mut verdict_done = false;
    let (mut last_len, mut last_event_at) = (0usize, Instant::now());
    while done.load(Ordering::Relaxed) < total {
        tokio::time::sleep(Duration::from_millis(20)).await;
        let log = hooks::snapshot_log();
        if log.len() != last_len {
            last_len = log.len();
            last_event_at = Instant::now();
        }
        let snapshot: Vec<(u128, u64, Duration)> = open.lock().unwrap().values().map(|o| (o.txn_id, o.inv, o.started.elapsed())).collect();
        for (txn_id, inv, age) in snapshot {
            let hi = (txn_id >> 64) as u64;
            let lo = txn_id as u64;
            let Some(wi) = log.iter().position(|e| e.name == "txn_written" && e.args[4] == hi && e.args[5] == lo) else { continue };
            let w = &log[wi];
            if w.args[6] == 0 { continue; } // the write failed: the error is on its way
            let (b, seg, end) = (w.args[0], w.args[1], w.args[3]);
            // covering sync: fsync of that segment with offset >= end, or the segment sealed (a later txn_written of the bucket in a newer segment)
            // (searched over the whole log: a sync inside the write itself is logged before txn_written, and an
            // fsync offset >= end can only have been reached after the write)
            let cover = log.iter().enumerate().find(|(_, e)| (e.name == "fsync" && e.args[0] == b && e.args[1] == seg && e.args[2] >= end) || (e.name == "rollover.done" && e.args[0] == b && e.args[1] > seg));
            // progress of the writer thread that owns this bucket: its flush polls (one per syncer tick)
            let wthread = w.thread;
            let progress_after = |from: usize| log.iter().skip(from).filter(|e| e.name == "flush_poll" && e.thread == wthread).count();
            match cover {
                Some((ci, _)) => {
                    let p = progress_after(ci + 1);
                    // quiescence: the covering sync was observed, and for 15 s no hook event of any kind has
                    // happened (no write, sync, poll or rollover anywhere): nothing is left that could complete
                    // the append, and 15 s is far beyond scheduling noise of an idle process
                    let now_tick_age = last_event_at.elapsed();
                    if age > Duration::from_secs(15) && now_tick_age > Duration::from_secs(15) && log.len() == last_len && ci + 1 <= log.len() && !verdict_done
                        && open.lock().unwrap().values().any(|o| o.txn_id == txn_id) {
                        rep.violation("C20:not-completed-although-synced-and-quiescent", format!("append invoked at tick {inv} was written (bucket {b} segment {seg} end {end}), a covering sync was observed, nothing has happened in the store for {:?} and it still has not returned after {:?}", now_tick_age, age), witness.clone());
                        verdict_done = true;
                    }
                    if p > 200 && !verdict_done {
                        // still open? give the client task a scheduling chance first (the observation
                        // happens at the client boundary, which needs the task to run)
                        tokio::time::sleep(Duration::from_millis(200)).await;
                        if open.lock().unwrap().values().any(|o| o.txn_id == txn_id) {
                            rep.violation("C20:not-completed-after-covering-sync", format!("append invoked at tick {inv} was written (bucket {b} segment {seg} end {end}), a covering sync was observed, {p} further flush polls of its writer thread passed, and it still has not returned after {:?}", age), witness.clone());
                            verdict_done = true;
                        }
                    }
                }
                None => {
                    let p = log.iter().skip(wi).filter(|e| e.name == "flush_poll" && e.thread == wthread).count();
                    // the store is quiescent (see above) and the append was never covered by a sync
                    if age > Duration::from_secs(15) && last_event_at.elapsed() > Duration::from_secs(15) && !verdict_done
                        && open.lock().unwrap().values().any(|o| o.txn_id == txn_id) {
                        rep.violation("C20:no-covering-sync-and-quiescent", format!("append invoked at tick {inv} was written (bucket {b} segment {seg} end {end}), no sync covered it, nothing has happened in the store for {:?} and it has not returned after {:?}", last_event_at.elapsed(), age), witness.clone());
                        verdict_done = true;
                    }
                    // the syncer keeps polling the other writer threads but never this one
                    if p == 0 && !verdict_done {
                        let mut per_thread: BTreeMap<u64, usize> = BTreeMap::new();
                        for e in log.iter().skip(wi).filter(|e| e.name == "flush_poll" && e.thread != wthread) { *per_thread.entry(e.thread).or_default() += 1; }
                        let ticks = per_thread.values().copied().max().unwrap_or(0);
                        if ticks > 1000 {
                            tokio::time::sleep(Duration::from_millis(200)).await;
                            if open.lock().unwrap().values().any(|o| o.txn_id == txn_id) {
                                rep.violation("C20:writer-thread-no-longer-polled", format!("append invoked at tick {inv} was written (bucket {b} segment {seg} end {end}) and is not covered by a sync; since then the syncer polled another writer thread {ticks} times and this one never; not returned after {:?}", age), witness.clone());
                                verdict_done = true;
                            }
                        }
                    }
                    if p > 400 && !verdict_done && open.lock().unwrap().values().any(|o| o.txn_id == txn_id) {
                        rep.violation("C20:no-covering-sync", format!("append invoked at tick {inv} was written (bucket {b} segment {seg} end {end}) but no sync covered it after {p} flush polls ({:?})", age), witness.clone());
                        verdict_done = true;
                    }
                }
            }
        }
        if verdict_done { break; }
        if t0.elapsed() > Duration::from_secs(60) {
            rep.inconclusive("wall-clock watchdog (60 s) expired with appends still open and no logical verdict");
            break;
        }
        // keep the log bounded
        if log.len() > 400_000 { rep.note("event log large; case ended early"); break; }
    }
    stop.store(true, Ordering::Relaxed);
    for h in hs { h.abort(); }
    rep.count("appends_completed", done.load(Ordering::Relaxed));
    rep.max("append_latency_ms", lat_max.load(Ordering::Relaxed));
    if lat_max.load(Ordering::Relaxed) > 5000 {
        rep.note(format!("slow case: max append latency {} ms in {}", lat_max.load(Ordering::Relaxed), witness));
    }
    rep.count("flush_polls_observed", hooks::snapshot_log().iter().filter(|e| e.name == "flush_poll").count() as u64);
    rep.count("fsyncs_observed", hooks::snapshot_log().iter().filter(|e| e.name == "fsync").count() as u64);
    rep.nontrivial(&(cfg.sync_interval_ms, cfg.sync_idle_ms, cfg.max_batch, cfg.min_sync_bytes, clients, cfg.buckets, cfg.writer_threads, cfg.segment_size));
    if rep.want_sample() { rep.sample(json!({"case": witness, "max_latency_ms": lat_max.load(Ordering::Relaxed)})); }
    hooks::clear_log();
    db.shutdown().await;
    drop(db);
    let _ = std::fs::remove_dir_all(&dir);
}

pub fn run(args: &Args, rep: &mut Report) {
    let rt = runtime(4);
    if let Some(w) = args.load_replay() {
        rt.block_on(run_case(rep, args, w["witness"]["case_seed"].as_u64().unwrap()));
        return;
    }
    let mut case = 0u64;
    while args.time_left() && opens_left() {
        case += 1;
        rt.block_on(run_case(rep, args, args.case_seed(case)));
        if rep.violations.len() > 5 { break; }
    }
    rep.count("cases", case);
}
