//! C04 Multi-event transactions are all-or-nothing for readers.
//!
//! (a) histories with failing transactions; after every step every read API is
//!     checked for group structure: a returned group must hold exactly the events
//!     of one committed transaction that the stream filter and the start position
//!     allow; ids of uncommitted (failed) transactions form a deny-list.
//! (b) a concurrent reader runs full rounds while the writer thread is held (hook
//!     `write.after_event`) between the events of a multi-event transaction and
//!     between its last event and the commit record.
//! (c) crash states whose cut falls inside a multi-event transaction (c05 engine).

use std::collections::BTreeSet;
use std::time::Duration;

use sierradb::IterDirection;
use sierradb::bucket::segment::EventRecord;
use sierradb::database::Database;
use vpc::model::{MEvent, MTxn, Model, Pid};
use vpc::{Args, Report, Rng, json};

use crate::hooks;
use crate::store::*;

/// Forward scan group rule. `stream`: Some(name) for stream scans.
fn check_groups(groups: &[Vec<EventRecord>], model: &Model, pid: Pid, stream: Option<&str>, start: u64, deny: &BTreeSet<u128>) -> Option<(String, String)> {
    for g in groups {
        if g.is_empty() {
            return Some(("empty-group".into(), "empty group returned".into()));
        }
        for e in g {
            if deny.contains(&e.event_id.as_u128()) {
                return Some(("uncommitted-returned".into(), format!("event {} (seq {}) of a transaction without commit was returned", e.event_id, e.partition_sequence)));
            }
        }
        let first = &g[0];
        let Some(m) = model.partition_events(pid).iter().find(|m| m.event_id == first.event_id.as_u128()) else {
            return Some(("unknown-event".into(), format!("event {} is not in the model", first.event_id)));
        };
        let ti = m.txn_index;
        let want: Vec<&MEvent> = model
            .partition_events(pid)
            .iter()
            .filter(|x| x.txn_index == ti)
            .filter(|x| stream.map(|s| x.stream == s).unwrap_or(true))
            .filter(|x| if stream.is_some() { x.version >= start } else { x.seq >= start })
            .collect();
        let got: Vec<u128> = g.iter().map(|e| e.event_id.as_u128()).collect();
        let wanted: Vec<u128> = want.iter().map(|e| e.event_id).collect();
        if got != wanted {
            let class = if got.len() < wanted.len() { "partial-transaction" } else { "foreign-or-extra-events" };
            return Some((class.into(), format!("group of transaction #{ti} holds {} events {:?}, the filter and start position allow {} {:?}", got.len(), g.iter().map(|e| e.partition_sequence).collect::<Vec<_>>(), wanted.len(), want.iter().map(|e| e.seq).collect::<Vec<_>>())));
        }
    }
    None
}

async fn reader_round(db: &Database, model: &Model, deny: &BTreeSet<u128>, rng: &mut Rng, out: &mut Vec<(String, String)>) -> u64 {
    let mut reads = 0;
    for (pid, evs) in &model.partitions {
        let n = evs.len() as u64;
        for start in [0, rng.below(n.max(1)), n.saturating_sub(1)] {
            reads += 1;
            let how = *rng.pick(&[Consume::Next, Consume::Batch(1), Consume::Batch(3), Consume::Batch(50)]);
            match scan_partition(db, *pid, start, IterDirection::Forward, how).await {
                Ok(groups) => {
                    if let Some((c, w)) = check_groups(&groups, model, *pid, None, start, deny) {
                        out.push((format!("read_partition:{c}"), format!("partition {pid} from {start}: {w}")));
                    }
                    let want: Vec<&MEvent> = evs.iter().filter(|e| e.seq >= start).collect();
                    if let Some((c, w)) = diff_forward(&groups, &want) {
                        out.push((format!("read_partition:{c}"), format!("partition {pid} from {start}: {w}")));
                    }
                }
                Err(e) => out.push(("read_partition:error".into(), format!("partition {pid} from {start}: {e}"))),
            }
        }
    }
    for ((_, s), st) in &model.streams {
        let pid = st.events[0].0;
        let all = model.stream_events(pid, s);
        let n = all.len() as u64;
        for start in [0, rng.below(n.max(1))] {
            reads += 1;
            match scan_stream(db, pid, s, start, IterDirection::Forward, Consume::Batch(7)).await {
                Ok(groups) => {
                    if let Some((c, w)) = check_groups(&groups, model, pid, Some(s), start, deny) {
                        out.push((format!("read_stream:{c}"), format!("stream {s} from {start}: {w}")));
                    }
                    let want: Vec<&MEvent> = all.iter().filter(|e| e.version >= start).copied().collect();
                    if let Some((c, w)) = diff_forward(&groups, &want) {
                        out.push((format!("read_stream:{c}"), format!("stream {s} from {start}: {w}")));
                    }
                }
                Err(e) => out.push(("read_stream:error".into(), format!("stream {s} from {start}: {e}"))),
            }
        }
    }
    // transaction reads: from the first event the whole transaction, from a later event its suffix
    for (ti, rec) in model.txns.iter().enumerate() {
        if rec.txn.events.len() < 2 || !rng.chance(1, 3) {
            continue;
        }
        let pid = rec.txn.partition_id;
        let evs: Vec<&MEvent> = model.partition_events(pid).iter().filter(|e| e.txn_index == ti).collect();
        let k = rng.usize_below(evs.len());
        reads += 1;
        match read_transaction_g(db, pid, evs[k].event_id).await {
            Ok(Some(g)) => {
                let got: Vec<u128> = group_events(g).iter().map(|e| e.event_id.as_u128()).collect();
                let want: Vec<u128> = evs[k..].iter().map(|e| e.event_id).collect();
                if got != want {
                    out.push(("read_transaction:partial-transaction".into(), format!("transaction #{ti} read from its event {k}: {} events returned, {} expected", got.len(), want.len())));
                }
            }
            Ok(None) => out.push(("read_transaction:not-found".into(), format!("committed transaction #{ti} not found from event {k}"))),
            Err(e) => out.push(("read_transaction:error".into(), format!("transaction #{ti}: {e}"))),
        }
    }
    for id in deny.iter().take(40) {
        // the partition is not known for denied ids in general; try every partition of the model
        for pid in model.partitions.keys() {
            reads += 1;
            if let Ok(Some(e)) = read_event_g(db, *pid, *id).await {
                out.push(("read_event:uncommitted-returned".into(), format!("event {} of a transaction without commit is returned by id", e.event_id)));
            }
            if let Ok(Some(_)) = read_transaction_g(db, *pid, *id).await {
                out.push(("read_transaction:uncommitted-returned".into(), format!("transaction read from uncommitted event {id:032x} returned events")));
            }
        }
    }
    reads
}

async fn held_writer_case(rep: &mut Report, args: &Args, case_seed: u64) {
    let mut rng = Rng::new(case_seed);
    let cfg = StoreCfg {
        segment_size: *rng.pick(&[128 * 1024usize, 1024 * 1024]),
        buckets: 1,
        writer_threads: 1,
        reader_threads: 2,
        partitions: 1 + rng.below(2) as u16,
        compression: rng.chance(1, 2),
        sync_interval_ms: 1,
        sync_idle_ms: 1,
        max_batch: 1,
        min_sync_bytes: 1,
    };
    let dir = fresh_dir(&args.work, &format!("c04h-{}-{case_seed}", args.shard));
    let Ok(db) = cfg.open(&dir) else {
        rep.inconclusive("open failed");
        return;
    };
    rep.evaluations += 1;
    let mut model = Model::new(1);
    let mut g = Gen::new(&mut rng, &cfg, 2, 2);
    let opts = GenOpts { wrong_pct: 0, max_events: 5, big_payload_pct: 30, max_payload: 40_000, key_conflict_pct: 0 };
    let mut deny: BTreeSet<u128> = BTreeSet::new();
    let witness = |extra: &str| json!({"case_seed": case_seed, "mode": "held-writer", "store": cfg.to_json(), "where": extra});
    for _ in 0..(4 + rng.usize_below(8)) {
        let t = g.txn(&mut rng, &model, &opts);
        if model.check(&t).is_err() {
            continue;
        }
        if t.events.len() < 2 {
            if db.append_events(to_store_txn(&t).unwrap()).await.is_ok() {
                model.apply(&t).unwrap();
            }
            continue;
        }
        // hold the writer thread after every event of this multi-event transaction
        let ids: BTreeSet<u128> = t.events.iter().map(|e| e.event_id).collect();
        let mut during = deny.clone();
        during.extend(ids.iter().copied());
        let hits0 = hooks::hits("write.after_event");
        hooks::arm("write.after_event", Some(0));
        let dbc = db.clone();
        let st = to_store_txn(&t).unwrap();
        let handle = tokio::spawn(async move { dbc.append_events(st).await.map(|_| ()).map_err(|e| e.to_string()) });
        for k in 0..t.events.len() {
            // wait for the (k+1)-th arrival of this transaction at the pause point
            let t0 = std::time::Instant::now();
            while hooks::hits("write.after_event") < hits0 + k as u64 + 1 && t0.elapsed() < Duration::from_secs(30) && !handle.is_finished() {
                tokio::time::sleep(Duration::from_micros(200)).await;
            }
            if handle.is_finished() {
                // refused before anything was written (e.g. larger than a segment)
                hooks::disarm_all();
                break;
            }
            if hooks::hits("write.after_event") < hits0 + k as u64 + 1 || !hooks::wait_held("write.after_event", Duration::from_secs(10)) {
                rep.inconclusive("writer never reached the pause point write.after_event");
                hooks::disarm_all();
                break;
            }
            // the writer is provably inside the transaction: run a full reader round
            let mut out = Vec::new();
            let reads = reader_round(&db, &model, &during, &mut rng, &mut out).await;
            rep.count("reader_rounds_while_writer_held", 1);
            rep.count("reads_while_writer_held", reads);
            let place = if k + 1 == t.events.len() { "between-last-event-and-commit" } else { "between-events" };
            rep.nontrivial(&(case_seed, g.op_counter, k));
            for (sig, what) in out.into_iter().take(2) {
                rep.violation(&format!("C04:held-writer:{place}:{sig}"), format!("writer held {place} (after event {k} of {}): {what}", t.events.len()), witness(place));
            }
            if k + 1 == t.events.len() {
                hooks::release("write.after_event");
            } else {
                hooks::step("write.after_event");
            }
        }
        hooks::disarm_all();
        match tokio::time::timeout(Duration::from_secs(20), handle).await {
            Ok(Ok(Ok(()))) => {
                model.apply(&t).unwrap();
                let mut out = Vec::new();
                reader_round(&db, &model, &deny, &mut rng, &mut out).await;
                for (sig, what) in out.into_iter().take(2) {
                    rep.violation(&format!("C04:after-commit:{sig}"), format!("after the transaction was acknowledged: {what}"), witness("after-commit"));
                }
            }
            Ok(Ok(Err(e))) => {
                rep.note(format!("held append refused: {e}"));
                deny.extend(ids);
            }
            _ => {
                rep.inconclusive("held append did not complete within 20 s after release");
                break;
            }
        }
    }
    db.shutdown().await;
    drop(db);
    let _ = std::fs::remove_dir_all(&dir);
}

async fn history_case(rep: &mut Report, args: &Args, case_seed: u64) {
    let mut rng = Rng::new(case_seed);
    let mut cfg = StoreCfg::random(&mut rng);
    cfg.segment_size = 128 * 1024;
    let dir = fresh_dir(&args.work, &format!("c04-{}-{case_seed}", args.shard));
    let Ok(mut db) = cfg.open(&dir) else {
        rep.inconclusive("open failed");
        return;
    };
    rep.evaluations += 1;
    let mut model = Model::new(cfg.buckets);
    let mut g = Gen::new(&mut rng, &cfg, 2, 2);
    let opts = GenOpts { wrong_pct: 8, max_events: 6, big_payload_pct: 25, max_payload: 30_000, key_conflict_pct: 3 };
    let mut deny: BTreeSet<u128> = BTreeSet::new();
    let mut ops: Vec<vpc::Value> = Vec::new();
    let n_ops = 30 + rng.usize_below(60);
    let mut failed_partial = 0u64;
    let (mut after_failed_partial, mut reopen_pending) = (false, false);
    for step in 0..n_ops {
        // reopen: now and then, and (1 in 2) right after the first accepted append that follows a failed partial write
        if step > 0 && (rng.chance(1, 30) || (reopen_pending && rng.chance(1, 2))) && opens_left() {
            reopen_pending = false;
            db.shutdown().await;
            drop(db);
            db = match cfg.open(&dir) {
                Ok(d) => d,
                Err(e) => {
                    rep.violation("C04:reopen-failed", e, json!({"case_seed": case_seed}));
                    return;
                }
            };
            ops.push(json!("reopen"));
        }
        let mut t: MTxn = g.txn(&mut rng, &model, &opts);
        let mut bad_ts = false;
        if t.events.len() > 1 && rng.chance(1, 6) {
            let pos = 1 + rng.usize_below(t.events.len() - 1);
            t.events[pos].timestamp = u64::MAX - rng.below(1000);
            bad_ts = true;
            // 1 in 2: the events written before the failing one are large, so that the failing append is often the
            // one that rolls the segment over
            if rng.chance(1, 2) {
                let n = 30_000 + rng.usize_below(12_000);
                t.events[0].payload = rng.bytes(n);
            }
        }
        let accept = model.check(&t).is_ok() && !bad_ts;
        let res = db.append_events(to_store_txn(&t).unwrap()).await;
        ops.push(json!({"txn": txn_json(&t), "bad_timestamp": bad_ts, "store_ok": res.is_ok()}));
        if ops.len() > 30 {
            ops.remove(0);
        }
        match (res.is_ok(), accept) {
            (true, true) => {
                model.apply(&t).unwrap();
                if after_failed_partial {
                    after_failed_partial = false;
                    reopen_pending = true;
                }
            }
            (false, _) => {
                if bad_ts && model.check(&t).is_ok() {
                    failed_partial += 1;
                    after_failed_partial = true;
                }
                deny.extend(t.events.iter().map(|e| e.event_id));
            }
            (true, false) => {
                rep.note("store accepted an append the model rejects (C02's business); history stopped");
                break;
            }
        }
        let mut out = Vec::new();
        let reads = reader_round(&db, &model, &deny, &mut rng, &mut out).await;
        rep.count("reads_checked", reads);
        for (sig, what) in out.into_iter().take(2) {
            rep.violation(&format!("C04:history:{sig}"), what, json!({"case_seed": case_seed, "mode": "history", "store": cfg.to_json(), "ops_tail": ops.iter().rev().take(6).rev().collect::<Vec<_>>() }));
        }
        if rep.violations.len() > 8 {
            break;
        }
    }
    // final reopen: what recovery makes of the whole history (orphaned events of failed appends must stay invisible)
    if opens_left() && rep.violations.len() <= 8 {
        db.shutdown().await;
        drop(db);
        db = match cfg.open(&dir) {
            Ok(d) => d,
            Err(e) => {
                rep.violation("C04:reopen-failed", e, json!({"case_seed": case_seed}));
                return;
            }
        };
        for _ in 0..3 {
            let mut out = Vec::new();
            let reads = reader_round(&db, &model, &deny, &mut rng, &mut out).await;
            rep.count("reads_checked", reads);
            for (sig, what) in out.into_iter().take(2) {
                rep.violation(&format!("C04:history:after-final-reopen:{sig}"), what, json!({"case_seed": case_seed, "mode": "history", "store": cfg.to_json(), "ops_tail": ops.iter().rev().take(6).rev().collect::<Vec<_>>() }));
            }
        }
        rep.count("final_reopens", 1);
    }
    rep.count("failed_partial_writes", failed_partial);
    if failed_partial > 0 {
        rep.nontrivial(&("history", case_seed));
    }
    if rep.want_sample() {
        rep.sample(json!({"case_seed": case_seed, "mode": "history", "store": cfg.to_json(), "last_ops": ops.iter().rev().take(3).collect::<Vec<_>>()}));
    }
    db.shutdown().await;
    drop(db);
    let _ = std::fs::remove_dir_all(&dir);
}

pub fn run(args: &Args, rep: &mut Report) {
    if let Some(w) = args.load_replay() {
        let w = &w["witness"];
        if w["cut"].is_u64() {
            crate::c05::run(args, rep);
            return;
        }
        let rt = runtime(3);
        let cs = w["case_seed"].as_u64().unwrap();
        if w["mode"].as_str() == Some("held-writer") {
            rt.block_on(held_writer_case(rep, args, cs));
        } else {
            rt.block_on(history_case(rep, args, cs));
        }
        return;
    }
    // shards are split three ways: histories, held-writer windows, crash cuts
    match args.shard % 4 {
        0 => {
            let rt = runtime(3);
            let mut case = 0;
            while args.time_left() && opens_left() {
                case += 1;
                rt.block_on(history_case(rep, args, args.case_seed(case)));
            }
            rep.count("histories", case);
        }
        1 => {
            let rt = runtime(3);
            let mut case = 0;
            while args.time_left() && opens_left() {
                case += 1;
                rt.block_on(held_writer_case(rep, args, args.case_seed(1000 + case)));
            }
            rep.count("held_writer_cases", case);
        }
        _ => crate::c05::run(args, rep),
    }
}
