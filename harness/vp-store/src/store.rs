//! Real `sierradb::Database` wrapper: configuration matrix, deterministic id and
//! transaction generation, conversions between model and store types, read
//! helpers and audits (model vs store) used by all vp-store monitors.

use std::collections::BTreeMap;
use std::path::{Path, PathBuf};
use std::time::Duration;

use sierradb::bucket::segment::{CommittedEvents, EventRecord};
use sierradb::database::{Database, DatabaseBuilder, ExpectedVersion, NewEvent, Transaction};
use sierradb::error::WriteError;
use sierradb::writer_thread_pool::AppendResult;
use sierradb::{IterDirection, StreamId};
use smallvec::SmallVec;
use uuid::Uuid;
use vpc::model::{Assigned, Exp, MEvent, MNewEvent, MTxn, Model, Pid};
use vpc::{Rng, Value, json};

#[derive(Clone, Debug)]
pub struct StoreCfg {
    pub segment_size: usize,
    pub buckets: u16,
    pub writer_threads: u16,
    pub reader_threads: u16,
    pub partitions: u16,
    pub compression: bool,
    pub sync_interval_ms: u64,
    pub sync_idle_ms: u64,
    pub max_batch: usize,
    pub min_sync_bytes: usize,
}

impl StoreCfg {
    pub fn random(rng: &mut Rng) -> StoreCfg {
        let buckets = *rng.pick(&[1u16, 2, 2, 4]);
        let wt = match buckets {
            1 => 1,
            2 => *rng.pick(&[1u16, 2]),
            _ => *rng.pick(&[1u16, 2, 4]),
        };
        StoreCfg {
            segment_size: *rng.pick(&[128 * 1024usize, 128 * 1024, 256 * 1024, 1024 * 1024]),
            buckets,
            writer_threads: wt,
            reader_threads: 2 + rng.below(3) as u16,
            partitions: buckets * (1 + rng.below(3) as u16),
            compression: rng.chance(1, 2),
            sync_interval_ms: *rng.pick(&[1u64, 2, 5, 20, 100]),
            sync_idle_ms: *rng.pick(&[1u64, 5, 50]),
            max_batch: *rng.pick(&[1usize, 50, 1000]),
            min_sync_bytes: *rng.pick(&[1usize, 4096, 1 << 20]),
        }
    }
    pub fn to_json(&self) -> Value {
        json!({"segment_size": self.segment_size, "buckets": self.buckets, "writer_threads": self.writer_threads,
               "reader_threads": self.reader_threads, "partitions": self.partitions, "compression": self.compression,
               "sync_interval_ms": self.sync_interval_ms, "sync_idle_ms": self.sync_idle_ms, "max_batch": self.max_batch,
               "min_sync_bytes": self.min_sync_bytes})
    }
    pub fn from_json(v: &Value) -> StoreCfg {
        StoreCfg {
            segment_size: v["segment_size"].as_u64().unwrap() as usize,
            buckets: v["buckets"].as_u64().unwrap() as u16,
            writer_threads: v["writer_threads"].as_u64().unwrap() as u16,
            reader_threads: v["reader_threads"].as_u64().unwrap() as u16,
            partitions: v["partitions"].as_u64().unwrap() as u16,
            compression: v["compression"].as_bool().unwrap(),
            sync_interval_ms: v["sync_interval_ms"].as_u64().unwrap(),
            sync_idle_ms: v["sync_idle_ms"].as_u64().unwrap(),
            max_batch: v["max_batch"].as_u64().unwrap() as usize,
            min_sync_bytes: v["min_sync_bytes"].as_u64().unwrap() as usize,
        }
    }
    pub fn open(&self, dir: &Path) -> Result<Database, String> {
        // the leak grows with the bucket count (reader threads x segment files): many-bucket stores are charged more
        // (64 buckets leak ~500 descriptors per open, 1-4 buckets a few dozen; the limit is 20000 per process)
        OPENS.fetch_add(if self.buckets <= 8 { 1 } else { self.buckets as u64 / 4 }, std::sync::atomic::Ordering::Relaxed);
        let mut b = DatabaseBuilder::new();
        b.segment_size_bytes(self.segment_size)
            .total_buckets(self.buckets)
            .bucket_ids_from_range(0..self.buckets)
            .writer_threads(self.writer_threads)
            .reader_threads(self.reader_threads)
            .sync_interval(if self.sync_interval_ms == u64::MAX { Duration::MAX } else { Duration::from_millis(self.sync_interval_ms) })
            .sync_idle_interval(Duration::from_millis(self.sync_idle_ms))
            .max_batch_size(self.max_batch)
            .min_sync_bytes(self.min_sync_bytes)
            .cache_capacity_bytes(4 * 1024 * 1024)
            .compression(self.compression);
        match std::panic::catch_unwind(std::panic::AssertUnwindSafe(|| b.open(dir))) {
            Ok(Ok(db)) => Ok(db),
            Ok(Err(e)) => Err(format!("open error: {e}")),
            Err(_) => Err(format!("open panicked: {}", vpc::last_panic())),
        }
    }
}

/// Database instances opened by this process. Every instance leaks its reader pool
/// (threads + file descriptors: the block caches hold a clone of the pool that owns
/// them), so engines bound the number of opens per process.
pub static OPENS: std::sync::atomic::AtomicU64 = std::sync::atomic::AtomicU64::new(0);
pub const MAX_OPENS_PER_PROCESS: u64 = 350;

pub fn opens_left() -> bool {
    OPENS.load(std::sync::atomic::Ordering::Relaxed) < MAX_OPENS_PER_PROCESS
}

pub fn raise_fd_limit() {
    unsafe {
        let mut r = libc::rlimit { rlim_cur: 0, rlim_max: 0 };
        if libc::getrlimit(libc::RLIMIT_NOFILE, &mut r) == 0 {
            r.rlim_cur = r.rlim_max;
            libc::setrlimit(libc::RLIMIT_NOFILE, &r);
        }
    }
}

pub fn runtime(threads: usize) -> tokio::runtime::Runtime {
    tokio::runtime::Builder::new_multi_thread().worker_threads(threads).enable_all().build().unwrap()
}

// ---------------------------------------------------------------------------
// ids
// ---------------------------------------------------------------------------

/// Deterministic id generator: every id is unique (counter) and carries the hash.
#[derive(Clone, Debug)]
pub struct Ids {
    pub counter: u64,
}

impl Ids {
    pub fn new() -> Ids {
        Ids { counter: 0 }
    }
    /// A UUID whose embedded partition hash (bits 46..61) is `hash`.
    pub fn with_hash(&mut self, rng: &mut Rng, hash: u16) -> u128 {
        self.counter += 1;
        ((0x0190_0000_0000u128 + self.counter as u128) << 80)
            | ((rng.next_u64() as u128 & 0xFFF) << 68)
            | (0x7u128 << 64)
            | (0x2u128 << 62)
            | ((hash as u128) << 46)
            | (rng.next_u64() as u128 & ((1u128 << 46) - 1))
    }
    /// Transaction id: unique, flag bit (bit 63) set iff single-event.
    pub fn txn_id(&mut self, rng: &mut Rng, single: bool) -> u128 {
        self.counter += 1;
        let v = ((rng.next_u64() as u128) << 64 | self.counter as u128 | (0xABu128 << 40)) & !(1u128 << 63);
        if single { v | 1u128 << 63 } else { v }
    }
}

pub fn hash_of_key(pk: u128) -> u16 {
    ((pk >> 46) & 0xFFFF) as u16
}

/// Partition keys: `per_partition` keys for every partition id in 0..partitions.
pub fn make_keys(rng: &mut Rng, partitions: u16, per_partition: usize) -> Vec<(u128, Pid)> {
    let mut v = Vec::new();
    let span = (65_536u32 / partitions as u32).max(1);
    for p in 0..partitions {
        let mut used = Vec::new();
        for _ in 0..per_partition {
            // a hash with hash % partitions == p, different per key
            let mut k = rng.below(span as u64 - 1) as u32;
            while used.contains(&k) {
                k = (k + 1) % (span - 1);
            }
            used.push(k);
            let hash = (p as u32 + k * partitions as u32) as u16;
            debug_assert_eq!(hash % partitions, p);
            let pk = (((rng.next_u64() as u128) << 64 | rng.next_u64() as u128) & !(0xFFFFu128 << 46)) | (hash as u128) << 46;
            v.push((pk, p));
        }
    }
    v
}

// ---------------------------------------------------------------------------
// conversions
// ---------------------------------------------------------------------------

pub fn exp_to_store(e: Exp) -> ExpectedVersion {
    match e {
        Exp::Any => ExpectedVersion::Any,
        Exp::Exists => ExpectedVersion::Exists,
        Exp::Empty => ExpectedVersion::Empty,
        Exp::Exact(v) => ExpectedVersion::Exact(v),
    }
}

pub fn to_store_txn(t: &MTxn) -> Result<Transaction, String> {
    let events: SmallVec<[NewEvent; 4]> = t
        .events
        .iter()
        .map(|e| NewEvent {
            event_id: Uuid::from_u128(e.event_id),
            stream_id: StreamId::new(e.stream.clone()).expect("stream id"),
            stream_version: exp_to_store(e.expected),
            event_name: e.name.clone(),
            timestamp: e.timestamp,
            metadata: e.metadata.clone(),
            payload: e.payload.clone(),
        })
        .collect();
    let txn = Transaction::new(Uuid::from_u128(t.partition_key), t.partition_id, events).map_err(|e| format!("Transaction::new: {e}"))?;
    Ok(txn
        .with_transaction_id(Uuid::from_u128(t.txn_id))
        .expected_partition_sequence(exp_to_store(t.expected_seq))
        .with_confirmation_count(t.confirmation_count))
}

pub fn txn_json(t: &MTxn) -> Value {
    json!({
        "pid": t.partition_id, "key": format!("{:032x}", t.partition_key), "txn": format!("{:032x}", t.txn_id),
        "expected_seq": format!("{:?}", t.expected_seq),
        "events": t.events.iter().map(|e| json!({"stream": e.stream, "expected": format!("{:?}", e.expected), "ts": e.timestamp,
            "payload_len": e.payload.len(), "meta_len": e.metadata.len(), "id": format!("{:032x}", e.event_id)})).collect::<Vec<_>>()
    })
}

/// Field-by-field comparison of a stored record with the model's event.
pub fn diff_event(rec: &EventRecord, m: &MEvent, check_confirmations: bool) -> Option<String> {
    macro_rules! cmp {
        ($name:expr, $a:expr, $b:expr) => {
            if $a != $b {
                return Some(format!("{} differs: store {:?} model {:?}", $name, $a, $b));
            }
        };
    }
    cmp!("event_id", rec.event_id.as_u128(), m.event_id);
    cmp!("partition_key", rec.partition_key.as_u128(), m.partition_key);
    cmp!("partition_id", rec.partition_id, m.partition_id);
    cmp!("transaction_id", rec.transaction_id.as_u128(), m.txn_id);
    cmp!("partition_sequence", rec.partition_sequence, m.seq);
    cmp!("stream_version", rec.stream_version, m.version);
    cmp!("timestamp", rec.timestamp, m.timestamp);
    cmp!("stream_id", &*rec.stream_id, m.stream.as_str());
    cmp!("event_name", rec.event_name.as_str(), m.name.as_str());
    if rec.metadata != m.metadata {
        return Some(format!("metadata differs ({} vs {} bytes)", rec.metadata.len(), m.metadata.len()));
    }
    if rec.payload != m.payload {
        return Some(format!("payload differs ({} vs {} bytes)", rec.payload.len(), m.payload.len()));
    }
    if check_confirmations {
        cmp!("confirmation_count", rec.confirmation_count, m.confirmation_count);
    }
    None
}

pub fn group_events(g: CommittedEvents) -> Vec<EventRecord> {
    g.into_iter().collect()
}

// ---------------------------------------------------------------------------
// scans
// ---------------------------------------------------------------------------

/// Run a future on its own task so that a panic inside the code under test is
/// reported as an error ("panic: <site>") instead of killing the shard.
pub async fn guarded<T: Send + 'static>(f: impl std::future::Future<Output = T> + Send + 'static) -> Result<T, String> {
    match tokio::spawn(f).await {
        Ok(v) => Ok(v),
        Err(e) if e.is_panic() => Err(format!("panic: {}", vpc::last_panic())),
        Err(e) => Err(format!("task failed: {e}")),
    }
}

pub async fn scan_partition(db: &Database, pid: Pid, from: u64, dir: IterDirection, how: Consume) -> Result<Vec<Vec<EventRecord>>, String> {
    let db = db.clone();
    guarded(async move { scan_partition_inner(&db, pid, from, dir, how).await }).await.and_then(|r| r)
}

pub async fn scan_stream(db: &Database, pid: Pid, stream: &str, from: u64, dir: IterDirection, how: Consume) -> Result<Vec<Vec<EventRecord>>, String> {
    let db = db.clone();
    let stream = stream.to_string();
    guarded(async move { scan_stream_inner(&db, pid, &stream, from, dir, how).await }).await.and_then(|r| r)
}

pub async fn read_event_g(db: &Database, pid: Pid, id: u128) -> Result<Option<EventRecord>, String> {
    let db = db.clone();
    guarded(async move { db.read_event(pid, Uuid::from_u128(id)).await.map_err(|e| e.to_string()) }).await.and_then(|r| r)
}

pub async fn read_transaction_g(db: &Database, pid: Pid, id: u128) -> Result<Option<CommittedEvents>, String> {
    let db = db.clone();
    guarded(async move { db.read_transaction(pid, Uuid::from_u128(id)).await.map_err(|e| e.to_string()) }).await.and_then(|r| r)
}

#[derive(Clone, Copy, Debug, PartialEq, Eq, Hash)]
pub enum Consume {
    Next,
    Batch(usize),
}

async fn scan_partition_inner(db: &Database, pid: Pid, from: u64, dir: IterDirection, how: Consume) -> Result<Vec<Vec<EventRecord>>, String> {
    let mut it = db.read_partition(pid, from, dir).await.map_err(|e| format!("read_partition: {e}"))?;
    let mut groups = Vec::new();
    let mut guard = 0;
    loop {
        guard += 1;
        if guard > 200_000 {
            return Err("scan did not terminate (200000 batches)".into());
        }
        match how {
            Consume::Next => match it.next().await.map_err(|e| format!("partition next: {e}"))? {
                Some(g) => groups.push(group_events(g)),
                None => break,
            },
            Consume::Batch(k) => match it.next_batch(k).await.map_err(|e| format!("partition next_batch: {e}"))? {
                Some(b) => {
                    if b.is_empty() {
                        return Err("next_batch returned Some(empty)".into());
                    }
                    groups.extend(b.into_iter().map(group_events))
                }
                None => break,
            },
        }
    }
    Ok(groups)
}

async fn scan_stream_inner(db: &Database, pid: Pid, stream: &str, from: u64, dir: IterDirection, how: Consume) -> Result<Vec<Vec<EventRecord>>, String> {
    let sid = StreamId::new(stream.to_string()).unwrap();
    let mut it = db.read_stream(pid, sid, from, dir).await.map_err(|e| format!("read_stream: {e}"))?;
    let mut groups = Vec::new();
    let mut guard = 0;
    loop {
        guard += 1;
        if guard > 200_000 {
            return Err("scan did not terminate (200000 batches)".into());
        }
        match how {
            Consume::Next => match it.next().await.map_err(|e| format!("stream next: {e}"))? {
                Some(g) => groups.push(group_events(g)),
                None => break,
            },
            Consume::Batch(k) => match it.next_batch(k).await.map_err(|e| format!("stream next_batch: {e}"))? {
                Some(b) => {
                    if b.is_empty() {
                        return Err("next_batch returned Some(empty)".into());
                    }
                    groups.extend(b.into_iter().map(group_events))
                }
                None => break,
            },
        }
    }
    Ok(groups)
}

/// Compare a forward scan (flattened) with the model's list. Returns a description of the first difference.
pub fn diff_forward(groups: &[Vec<EventRecord>], want: &[&MEvent]) -> Option<(String, String)> {
    let flat: Vec<&EventRecord> = groups.iter().flat_map(|g| g.iter()).collect();
    for (i, w) in want.iter().enumerate() {
        match flat.get(i) {
            None => return Some(("missing".into(), format!("scan ended after {} events, model has {} (first missing: seq {} version {} stream {})", flat.len(), want.len(), w.seq, w.version, w.stream))),
            Some(r) => {
                if let Some(d) = diff_event(r, w, false) {
                    let class = if r.event_id.as_u128() != w.event_id { "wrong-event" } else { "wrong-content" };
                    return Some((class.into(), format!("event #{i}: {d}")));
                }
            }
        }
    }
    if flat.len() > want.len() {
        let r = flat[want.len()];
        return Some(("extra".into(), format!("scan returned {} events, model has {} (first extra: seq {} version {} stream {})", flat.len(), want.len(), r.partition_sequence, r.stream_version, &*r.stream_id)));
    }
    None
}

// ---------------------------------------------------------------------------
// audits
// ---------------------------------------------------------------------------

#[derive(Debug, Clone)]
pub struct Finding {
    pub api: &'static str,
    pub class: String,
    pub what: String,
}

/// Every read API for one acknowledged transaction (model index `ti`).
pub async fn audit_txn(db: &Database, model: &Model, ti: usize, out: &mut Vec<Finding>) -> u64 {
    let rec = &model.txns[ti];
    let pid = rec.txn.partition_id;
    let part = model.partition_events(pid);
    let mine: Vec<&MEvent> = part.iter().filter(|e| e.txn_index == ti).collect();
    let mut reads = 0u64;
    // 1. event lookup by id
    for e in &mine {
        reads += 1;
        match read_event_g(db, pid, e.event_id).await {
            Ok(Some(r)) => {
                if let Some(d) = diff_event(&r, e, false) {
                    out.push(Finding { api: "read_event", class: "wrong-content".into(), what: d });
                }
            }
            Ok(None) => out.push(Finding { api: "read_event", class: "not-found".into(), what: format!("event seq {} of an acknowledged transaction not found by id", e.seq) }),
            Err(err) => out.push(Finding { api: "read_event", class: "error".into(), what: format!("event seq {}: {err}", e.seq) }),
        }
    }
    // 2. transaction read from the first event
    reads += 1;
    match read_transaction_g(db, pid, mine[0].event_id).await {
        Ok(Some(g)) => {
            let evs = group_events(g);
            if evs.len() != mine.len() {
                out.push(Finding { api: "read_transaction", class: "incomplete".into(), what: format!("returned {} of {} events", evs.len(), mine.len()) });
            } else {
                for (r, e) in evs.iter().zip(mine.iter()) {
                    if let Some(d) = diff_event(r, e, false) {
                        out.push(Finding { api: "read_transaction", class: "wrong-content".into(), what: d });
                        break;
                    }
                }
            }
        }
        Ok(None) => out.push(Finding { api: "read_transaction", class: "not-found".into(), what: "acknowledged transaction not found".into() }),
        Err(err) => out.push(Finding { api: "read_transaction", class: "error".into(), what: format!("{err}") }),
    }
    // 3. partition scan from its first sequence
    reads += 1;
    let first = mine[0].seq;
    let want: Vec<&MEvent> = part.iter().filter(|e| e.seq >= first).collect();
    match scan_partition(db, pid, first, IterDirection::Forward, Consume::Batch(64)).await {
        Ok(groups) => {
            if let Some((class, what)) = diff_forward(&groups, &want) {
                out.push(Finding { api: "read_partition", class, what: format!("from {first}: {what}") });
            }
        }
        Err(e) => out.push(Finding { api: "read_partition", class: "error".into(), what: format!("from {first}: {e}") }),
    }
    // 4. stream scans: from the first version this transaction wrote in each stream
    let mut firsts: BTreeMap<&str, u64> = BTreeMap::new();
    for e in &mine {
        firsts.entry(e.stream.as_str()).or_insert(e.version);
    }
    for (stream, v0) in firsts {
        reads += 1;
        let all = model.stream_events(pid, stream);
        let want: Vec<&MEvent> = all.iter().filter(|e| e.version >= v0).copied().collect();
        match scan_stream(db, pid, stream, v0, IterDirection::Forward, Consume::Batch(64)).await {
            Ok(groups) => {
                if let Some((class, what)) = diff_forward(&groups, &want) {
                    out.push(Finding { api: "read_stream", class, what: format!("{stream} from {v0}: {what}") });
                }
            }
            Err(e) => out.push(Finding { api: "read_stream", class: "error".into(), what: format!("{stream} from {v0}: {e}") }),
        }
    }
    reads
}

/// Latest-version and latest-sequence queries vs model for the given partitions/streams.
pub async fn audit_latest(db: &Database, model: &Model, pids: &[Pid], streams: &[(Pid, String)], out: &mut Vec<Finding>) -> u64 {
    let mut reads = 0;
    for &pid in pids {
        reads += 1;
        match db.get_partition_sequence(pid).await {
            Ok(got) => {
                let g = got.map(|x| x.sequence);
                if g != model.partition_seq(pid) {
                    out.push(Finding { api: "get_partition_sequence", class: "wrong".into(), what: format!("partition {pid}: store {:?} model {:?}", g, model.partition_seq(pid)) });
                }
            }
            Err(e) => out.push(Finding { api: "get_partition_sequence", class: "error".into(), what: format!("partition {pid}: {e}") }),
        }
    }
    for (pid, s) in streams {
        reads += 1;
        let sid = StreamId::new(s.clone()).unwrap();
        match db.get_stream_version(*pid, &sid).await {
            Ok(got) => {
                let g = got.map(|x| x.version);
                if g != model.stream_version(*pid, s) {
                    out.push(Finding { api: "get_stream_version", class: "wrong".into(), what: format!("stream {s}: store {:?} model {:?}", g, model.stream_version(*pid, s)) });
                }
                if let (Some(x), Some(k)) = (got, model.stream_key(*pid, s)) {
                    if x.partition_key.as_u128() != k {
                        out.push(Finding { api: "get_stream_version", class: "wrong-key".into(), what: format!("stream {s}: partition key differs") });
                    }
                }
            }
            Err(e) => out.push(Finding { api: "get_stream_version", class: "error".into(), what: format!("stream {s}: {e}") }),
        }
    }
    reads
}

/// Whole-model audit: every partition and stream scanned from 0, every event by id, all latest queries.
pub async fn audit_all(db: &Database, model: &Model, out: &mut Vec<Finding>) -> u64 {
    let mut reads = 0;
    for (pid, evs) in &model.partitions {
        reads += 1;
        let want: Vec<&MEvent> = evs.iter().collect();
        match scan_partition(db, *pid, 0, IterDirection::Forward, Consume::Batch(50)).await {
            Ok(groups) => {
                if let Some((class, what)) = diff_forward(&groups, &want) {
                    out.push(Finding { api: "read_partition", class, what: format!("partition {pid} from 0: {what}") });
                }
            }
            Err(e) => out.push(Finding { api: "read_partition", class: "error".into(), what: format!("partition {pid} from 0: {e}") }),
        }
        for e in evs {
            reads += 1;
            match read_event_g(db, *pid, e.event_id).await {
                Ok(Some(r)) => {
                    if let Some(d) = diff_event(&r, e, false) {
                        out.push(Finding { api: "read_event", class: "wrong-content".into(), what: d });
                    }
                }
                Ok(None) => out.push(Finding { api: "read_event", class: "not-found".into(), what: format!("partition {pid} seq {} not found by id", e.seq) }),
                Err(err) => out.push(Finding { api: "read_event", class: "error".into(), what: format!("partition {pid} seq {}: {err}", e.seq) }),
            }
            if out.len() > 20 {
                return reads;
            }
        }
    }
    let streams: Vec<(Pid, String)> = model.streams.iter().map(|((_, s), st)| (st.events[0].0, s.clone())).collect();
    for (pid, s) in &streams {
        reads += 1;
        let want = model.stream_events(*pid, s);
        match scan_stream(db, *pid, s, 0, IterDirection::Forward, Consume::Batch(50)).await {
            Ok(groups) => {
                if let Some((class, what)) = diff_forward(&groups, &want) {
                    out.push(Finding { api: "read_stream", class, what: format!("stream {s} from 0: {what}") });
                }
            }
            Err(e) => out.push(Finding { api: "read_stream", class: "error".into(), what: format!("stream {s} from 0: {e}") }),
        }
    }
    let pids: Vec<Pid> = model.partitions.keys().copied().collect();
    reads += audit_latest(db, model, &pids, &streams, out).await;
    reads
}

/// Compare an AppendResult with the model's assignment.
pub fn diff_assigned(res: &AppendResult, a: &Assigned) -> Option<String> {
    if res.first_partition_sequence != a.first_seq || res.last_partition_sequence != a.last_seq {
        return Some(format!("sequences {}..{} vs model {}..{}", res.first_partition_sequence, res.last_partition_sequence, a.first_seq, a.last_seq));
    }
    let got: BTreeMap<String, u64> = res.stream_versions.iter().map(|(k, v)| (k.to_string(), *v)).collect();
    if got != a.stream_versions {
        return Some(format!("stream versions {got:?} vs model {:?}", a.stream_versions));
    }
    if res.offsets.len() != a.per_event.len() {
        return Some(format!("{} offsets for {} events", res.offsets.len(), a.per_event.len()));
    }
    None
}

pub fn write_error_class(e: &WriteError) -> &'static str {
    match e {
        WriteError::WrongExpectedVersion { .. } => "wrong-version",
        WriteError::WrongExpectedSequence { .. } => "wrong-sequence",
        WriteError::Validation(_) => "validation",
        WriteError::EventsExceedSegmentSize => "exceeds-segment",
        WriteError::Writer(seglog::write::WriteError::SegmentFull { .. }) => "segment-full",
        WriteError::NoThreadReply => "no-thread-reply",
        WriteError::WriterThreadNotRunning { .. } => "writer-not-running",
        _ => "other",
    }
}

pub fn fresh_dir(work: &Path, tag: &str) -> PathBuf {
    let d = work.join(tag);
    let _ = std::fs::remove_dir_all(&d);
    std::fs::create_dir_all(&d).unwrap();
    d
}

// ---------------------------------------------------------------------------
// transaction generator
// ---------------------------------------------------------------------------

#[derive(Clone, Debug)]
pub struct GenOpts {
    /// probability (percent) that an expectation is deliberately wrong
    pub wrong_pct: u64,
    pub max_events: usize,
    pub big_payload_pct: u64,
    pub max_payload: usize,
    pub key_conflict_pct: u64,
}

pub struct Gen {
    pub ids: Ids,
    pub keys: Vec<(u128, Pid)>,
    /// streams per key index
    pub streams_per_key: usize,
    pub op_counter: u64,
    /// restrict generated transactions to this key index
    pub only_key: Option<usize>,
    /// > 0: streams go dormant for whole phases of this many operations (a stream then has events in
    /// several sealed segments and none in the live one when it is written again)
    pub phase_len: u64,
}

impl Gen {
    pub fn new(rng: &mut Rng, cfg: &StoreCfg, keys_per_partition: usize, streams_per_key: usize) -> Gen {
        let keys = make_keys(rng, cfg.partitions, keys_per_partition);
        let phase_len = if rng.chance(1, 2) { 20 + rng.below(100) } else { 0 };
        Gen { ids: Ids::new(), keys, streams_per_key, op_counter: 0, only_key: None, phase_len }
    }
    /// stream slot of key `ki` for the next event; with dormancy on, a slot sleeps one phase in four
    fn pick_slot(&self, rng: &mut Rng, ki: usize) -> usize {
        let mut k = rng.usize_below(self.streams_per_key);
        if self.phase_len > 0 {
            let phase = (self.op_counter / self.phase_len) as usize;
            for _ in 0..8 {
                if (ki * 7 + k * 3 + phase) % 4 != 0 {
                    break;
                }
                k = rng.usize_below(self.streams_per_key);
            }
        }
        k
    }
    pub fn stream_name(&self, key_idx: usize, k: usize) -> String {
        format!("st-{key_idx}-{k}")
    }
    pub fn all_streams(&self) -> Vec<(Pid, String)> {
        let mut v = Vec::new();
        for (i, (_, pid)) in self.keys.iter().enumerate() {
            for k in 0..self.streams_per_key {
                v.push((*pid, self.stream_name(i, k)));
            }
        }
        v
    }
    fn payload(&mut self, rng: &mut Rng, o: &GenOpts, tag: u64) -> Vec<u8> {
        let n = if rng.below(100) < o.big_payload_pct {
            2000 + rng.usize_below(o.max_payload.max(2001) - 2000)
        } else {
            rng.usize_below(300)
        };
        let mut p = Vec::with_capacity(n);
        let t = tag.to_le_bytes();
        let incompressible = rng.chance(1, 2);
        for i in 0..n {
            p.push(if i < 8 { t[i] } else if incompressible { rng.next_u32() as u8 } else { b'a' + ((i / 64) % 7) as u8 });
        }
        p
    }
    fn expectation(&self, rng: &mut Rng, o: &GenOpts, current: Option<u64>) -> Exp {
        let wrong = rng.below(100) < o.wrong_pct;
        match (rng.below(4), current, wrong) {
            (0, _, _) => Exp::Any,
            (1, Some(_), false) | (1, None, true) => Exp::Exists,
            (1, Some(_), true) | (1, None, false) => Exp::Empty,
            (2, None, false) | (2, Some(_), true) => Exp::Empty,
            (2, Some(c), false) => Exp::Exact(c),
            (2, None, true) => Exp::Exact(rng.below(3)),
            (_, Some(c), false) => Exp::Exact(c),
            (_, Some(c), true) => Exp::Exact(match rng.below(4) { 0 => c + 1, 1 => c + 2, 2 => c.wrapping_sub(1), _ => c.wrapping_sub(2) }),
            (_, None, false) => Exp::Empty,
            (_, None, true) => Exp::Exists,
        }
    }
    /// A well-formed transaction against the current model state.
    pub fn txn(&mut self, rng: &mut Rng, model: &Model, o: &GenOpts) -> MTxn {
        self.op_counter += 1;
        let ki = match self.only_key {
            Some(k) => k,
            None => {
                // with dormancy on, a partition key sleeps one phase in three (its partition then lives in sealed
                // segments only when it is written again)
                let n = self.keys.len();
                let mut k = rng.usize_below(n);
                if self.phase_len > 0 && n > 1 {
                    let phase = (self.op_counter / self.phase_len) as usize;
                    for _ in 0..8 {
                        if (k + phase) % 3 != 0 {
                            break;
                        }
                        k = rng.usize_below(n);
                    }
                }
                k
            }
        };
        let (pk, pid) = self.keys[ki];
        let hash = hash_of_key(pk);
        let n = match rng.below(10) { 0..=4 => 1, 5..=7 => 2, 8 => 3, _ => 1 + rng.usize_below(o.max_events.max(1)) }.min(o.max_events.max(1));
        let mut cur: BTreeMap<String, Option<u64>> = BTreeMap::new();
        let mut events = Vec::with_capacity(n);
        // same-bucket key conflict: use a stream that belongs to another key in the same bucket
        let conflict = rng.below(100) < o.key_conflict_pct;
        for j in 0..n {
            let (stream, owner_known) = if conflict && j == n - 1 {
                let bucket = model.bucket_of(pid);
                let others: Vec<usize> = (0..self.keys.len()).filter(|i| *i != ki && model.bucket_of(self.keys[*i].1) == bucket).collect();
                if others.is_empty() { (self.stream_name(ki, self.pick_slot(rng, ki)), true) } else { (self.stream_name(*rng.pick(&others), rng.usize_below(self.streams_per_key)), false) }
            } else {
                (self.stream_name(ki, self.pick_slot(rng, ki)), true)
            };
            let c = match cur.get(&stream) {
                Some(c) => *c,
                None => model.stream_version(pid, &stream),
            };
            let expected = self.expectation(rng, o, c);
            let _ = owner_known;
            let next = c.map(|x| x + 1).unwrap_or(0);
            cur.insert(stream.clone(), Some(next));
            let tag = self.op_counter << 8 | j as u64;
            events.push(MNewEvent {
                event_id: self.ids.with_hash(rng, hash),
                stream,
                expected,
                name: format!("Ev{}", rng.below(5)),
                timestamp: 1_700_000_000_000_000_000 + self.op_counter * 1000 + j as u64,
                metadata: { let n = rng.usize_below(24); rng.bytes(n) },
                payload: self.payload(rng, o, tag),
            });
        }
        let pseq = model.partition_seq(pid);
        let expected_seq = if rng.chance(1, 2) { Exp::Any } else { self.expectation(rng, o, pseq) };
        MTxn { partition_key: pk, partition_id: pid, txn_id: self.ids.txn_id(rng, events.len() == 1), events, expected_seq, confirmation_count: 0 }
    }
}

pub fn stored_event_size(e: &MNewEvent) -> usize {
    // EVENT_HEADER_SIZE = 8 + 1 + 8 + 16 + 16 + 16 + 2 + 8 + 8 + 1 + 1 + 4 + 4 = 93
    93 + e.stream.len() + e.name.len() + e.metadata.len() + e.payload.len()
}
