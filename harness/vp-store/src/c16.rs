//! C16 Concurrent conflicting appends are serialised.
//!
//! 8-64 tasks race Exact/Empty appends (single- and multi-stream transactions,
//! sometimes with an exact expected partition sequence) on 1-4 hot streams.
//! Every call is recorded {invoke tick, return tick, result}. Oracle:
//!  * successes have disjoint sequence ranges; ordered by sequence they are the
//!    only candidate serial order; replaying them into the model, every success's
//!    expectations must hold there and the assigned numbers must match;
//!  * real time: A returned before B was invoked (same partition) => seq(A) < seq(B);
//!  * a refused append must have been invalid at some point between its invoke and
//!    its return (sound test: it was refused although the version it expected was
//!    certainly current during its whole interval);
//!  * final scans equal the replayed model.

use std::sync::{Arc, Mutex};
use std::time::Duration;

use vpc::model::{Exp, MNewEvent, MTxn, Model};
use vpc::{Args, Report, Rng, json};

use crate::hooks;
use crate::store::*;

#[derive(Clone, Debug)]
struct Call {
    txn: MTxn,
    inv: u64,
    ret: u64,
    ok: Option<(u64, u64, Vec<(String, u64)>)>, // first_seq, last_seq, stream versions
    err: String,
}

async fn run_case(rep: &mut Report, args: &Args, case_seed: u64) {
    let mut rng = Rng::new(case_seed);
    let buckets = *rng.pick(&[1u16, 1, 2]);
    let cfg = StoreCfg {
        segment_size: *rng.pick(&[128 * 1024usize, 1024 * 1024]),
        buckets,
        writer_threads: if buckets == 2 && rng.chance(1, 2) { 2 } else { 1 },
        reader_threads: 2,
        partitions: buckets,
        compression: rng.chance(1, 2),
        sync_interval_ms: *rng.pick(&[1u64, 5, 20]),
        sync_idle_ms: 5,
        max_batch: *rng.pick(&[1usize, 50]),
        min_sync_bytes: *rng.pick(&[1usize, 4096]),
    };
    let dir = fresh_dir(&args.work, &format!("c16-{}-{case_seed}", args.shard));
    let Ok(db) = cfg.open(&dir) else { rep.inconclusive("open failed"); return; };
    rep.evaluations += 1;
    // one key per partition; hot streams per key
    let keys = make_keys(&mut rng, cfg.partitions, 1);
    let n_streams = 1 + rng.usize_below(2);
    let n_tasks = 8 + rng.usize_below(40);
    let rounds = 3 + rng.usize_below(6);
    let calls: Arc<Mutex<Vec<Call>>> = Arc::new(Mutex::new(Vec::new()));
    // aged streams (1 case in 3, small segments): the hot streams get a history that spans two or more sealed
    // segments, then a filler stream rolls the segment over once more, so that when the race starts the writer has
    // to find the hot streams' current versions in the sealed segments, not in the live one
    if cfg.segment_size == 128 * 1024 && rng.chance(1, 3) {
        let mut ids = Ids { counter: 1 << 30 };
        let mut versions: std::collections::BTreeMap<String, u64> = Default::default();
        let mut pre: Vec<(usize, String)> = Vec::new();
        for i in 0..70 { let (_, pid) = keys[i % keys.len()]; pre.push((i % keys.len(), format!("hot-{pid}-{}", (i / keys.len()) % n_streams))); }
        for i in 0..45 { let (_, pid) = keys[i % keys.len()]; pre.push((i % keys.len(), format!("filler-{pid}"))); }
        for (ki, stream) in pre {
            let (pk, pid) = keys[ki];
            let exp = match versions.get(&stream) { None => Exp::Empty, Some(v) => Exp::Exact(*v) };
            let ev = MNewEvent { event_id: ids.with_hash(&mut rng, hash_of_key(pk)), stream: stream.clone(), expected: exp, name: "P".into(), timestamp: 1_700_000_000_000_000_000, metadata: vec![], payload: rng.bytes(3500) };
            let t = MTxn { partition_key: pk, partition_id: pid, txn_id: ids.txn_id(&mut rng, true), events: vec![ev], expected_seq: Exp::Any, confirmation_count: 0 };
            let inv = hooks::tick();
            let res = db.append_events(to_store_txn(&t).unwrap()).await;
            let ret = hooks::tick();
            let (ok, err) = match res {
                Ok(a) => { versions.insert(stream, *a.stream_versions.values().next().unwrap_or(&0)); (Some((a.first_partition_sequence, a.last_partition_sequence, a.stream_versions.iter().map(|(k, v)| (k.to_string(), *v)).collect())), String::new()) }
                Err(e) => (None, write_error_class(&e).to_string()),
            };
            calls.lock().unwrap().push(Call { txn: t, inv, ret, ok, err });
        }
        rep.count("cases_with_aged_hot_streams", 1);
    }
    let mut hs = Vec::new();
    for tk in 0..n_tasks {
        let db = db.clone();
        let calls = calls.clone();
        let keys = keys.clone();
        let mut trng = Rng::new(case_seed ^ (tk as u64 * 7919 + 13));
        hs.push(tokio::spawn(async move {
            let mut ids = Ids { counter: (tk as u64 + 1) << 36 };
            for r in 0..rounds {
                let (pk, pid) = keys[trng.usize_below(keys.len())];
                let hash = hash_of_key(pk);
                // optimistic: read current versions, then append expecting exactly them
                let k = if trng.chance(1, 3) { 2 } else { 1 };
                let mut events = Vec::new();
                let mut chosen: Vec<usize> = Vec::new();
                for _ in 0..k {
                    let mut si = trng.usize_below(n_streams);
                    if chosen.contains(&si) { si = (si + 1) % n_streams; }
                    if chosen.contains(&si) { break; }
                    chosen.push(si);
                    let stream = format!("hot-{pid}-{si}");
                    let sid = sierradb::StreamId::new(stream.clone()).unwrap();
                    let cur = db.get_stream_version(pid, &sid).await.ok().flatten().map(|v| v.version);
                    // sometimes deliberately stale by one
                    let exp = match (cur, trng.below(8)) {
                        (None, _) => Exp::Empty,
                        (Some(v), 0) if v > 0 => Exp::Exact(v - 1),
                        (Some(v), _) => Exp::Exact(v),
                    };
                    events.push(MNewEvent { event_id: ids.with_hash(&mut trng, hash), stream, expected: exp, name: "E".into(), timestamp: 1_700_000_000_000_000_000 + r as u64, metadata: vec![], payload: trng.bytes(20) });
                }
                let expected_seq = if trng.chance(1, 4) {
                    match db.get_partition_sequence(pid).await.ok().flatten() { Some(s) => Exp::Exact(s.sequence), None => Exp::Empty }
                } else { Exp::Any };
                let single = events.len() == 1;
                let t = MTxn { partition_key: pk, partition_id: pid, txn_id: ids.txn_id(&mut trng, single), events, expected_seq, confirmation_count: 0 };
                let inv = hooks::tick();
                let res = db.append_events(to_store_txn(&t).unwrap()).await;
                let ret = hooks::tick();
                let (ok, err) = match res {
                    Ok(a) => (Some((a.first_partition_sequence, a.last_partition_sequence, a.stream_versions.iter().map(|(k, v)| (k.to_string(), *v)).collect())), String::new()),
                    Err(e) => (None, write_error_class(&e).to_string()),
                };
                calls.lock().unwrap().push(Call { txn: t, inv, ret, ok, err });
                if trng.chance(1, 3) { tokio::task::yield_now().await; }
            }
        }));
    }
    for h in hs {
        if tokio::time::timeout(Duration::from_secs(60), h).await.is_err() {
            rep.inconclusive("a racing task did not finish within 60 s");
        }
    }
    let calls = calls.lock().unwrap().clone();
    let witness = json!({"case_seed": case_seed, "store": cfg.to_json(), "tasks": n_tasks, "rounds": rounds, "hot_streams_per_partition": n_streams});
    let mut succ: Vec<&Call> = calls.iter().filter(|c| c.ok.is_some()).collect();
    let fails: Vec<&Call> = calls.iter().filter(|c| c.ok.is_none()).collect();
    rep.count("appends", calls.len() as u64);
    rep.count("successes", succ.len() as u64);
    rep.count("refusals", fails.len() as u64);
    // serial order candidate: by partition, by first sequence
    succ.sort_by_key(|c| (c.txn.partition_id, c.ok.as_ref().unwrap().0));
    let mut model = Model::new(cfg.buckets);
    let mut bad = false;
    for c in &succ {
        let (f, l, ref vers) = *c.ok.as_ref().unwrap();
        match model.apply(&c.txn) {
            Ok(a) => {
                let mv: Vec<(String, u64)> = a.stream_versions.iter().map(|(k, v)| (k.clone(), *v)).collect();
                let mut got = vers.clone();
                got.sort();
                if a.first_seq != f || a.last_seq != l || mv != got {
                    rep.violation("C16:success-with-wrong-numbers", format!("in sequence order the success at {f}..{l} should have been assigned {}..{} {:?}, it reported {:?}", a.first_seq, a.last_seq, mv, got), witness.clone());
                    bad = true;
                }
            }
            Err(rj) => {
                let kind = match rj { vpc::model::Reject::WrongVersion { .. } => "two-successes-claim-the-same-stream-version", vpc::model::Reject::WrongSequence { .. } => "two-successes-claim-the-same-partition-sequence", vpc::model::Reject::KeyMismatch { .. } => "key-mismatch" };
                rep.violation(&format!("C16:not-serialisable:{kind}"), format!("the successes are not a serial execution in sequence order: success at {f}..{l} ({}) is rejected there: {rj:?}", txn_json(&c.txn)), witness.clone());
                bad = true;
                break;
            }
        }
    }
    // real-time order per partition
    for a in &succ {
        for b in &succ {
            if a.txn.partition_id == b.txn.partition_id && a.ret < b.inv && a.ok.as_ref().unwrap().0 > b.ok.as_ref().unwrap().0 {
                rep.violation("C16:real-time-order-violated", format!("an append that returned (tick {}) before another was invoked (tick {}) got the higher sequence ({} > {})", a.ret, b.inv, a.ok.as_ref().unwrap().0, b.ok.as_ref().unwrap().0), witness.clone());
                bad = true;
            }
        }
    }
    // refusals: sound wrongly-refused test for version conflicts on single-stream appends
    if !bad {
        for fcall in &fails {
            if fcall.err != "wrong-version" || fcall.txn.events.len() != 1 || fcall.txn.expected_seq != Exp::Any {
                continue;
            }
            let e = &fcall.txn.events[0];
            let pid = fcall.txn.partition_id;
            // successes on that stream in serial order with the version they produced
            let writes: Vec<(&Call, u64)> = succ.iter().filter(|c| c.txn.partition_id == pid).flat_map(|c| c.ok.as_ref().unwrap().2.iter().filter(|(s, _)| *s == e.stream).map(move |(_, v)| (*c, *v))).collect();
            // the stream had version `want` during the whole interval iff the success producing it returned
            // before the refusal was invoked and the next success on the stream was invoked after it returned
            let (want, prev_done_before) = match e.expected {
                Exp::Exact(v) => (Some(v), writes.iter().filter(|(_, ver)| *ver <= v).all(|(c, _)| c.ret < fcall.inv) && writes.iter().any(|(_, ver)| *ver == v)),
                Exp::Empty => (None, true),
                _ => continue,
            };
            let next_after = writes.iter().filter(|(_, ver)| want.map(|w| *ver > w).unwrap_or(true)).all(|(c, _)| c.inv > fcall.ret);
            if prev_done_before && next_after {
                rep.violation("C16:valid-append-refused", format!("append expecting {:?} on {} was refused although that was the stream's version during its whole call interval [{}, {}]", e.expected, e.stream, fcall.inv, fcall.ret), witness.clone());
            }
        }
    }
    // final state equals the serial replay
    if !bad {
        let mut out = Vec::new();
        audit_all(&db, &model, &mut out).await;
        if let Some(f) = out.first() {
            rep.violation(&format!("C16:final-state-differs:{}:{}", f.api, f.class), format!("final state differs from the serial replay: {}: {}", f.api, f.what), witness.clone());
        }
    }
    // non-trivial: a real race (some refusals and several successes per stream)
    if fails.iter().any(|f| f.err == "wrong-version" || f.err == "wrong-sequence") && succ.len() >= 4 {
        rep.nontrivial(&case_seed);
    }
    if rep.want_sample() {
        rep.sample(json!({"case": witness, "successes": succ.len(), "refusals": fails.len(), "first_calls": calls.iter().take(4).map(|c| json!({"inv": c.inv, "ret": c.ret, "ok": c.ok.as_ref().map(|o| (o.0, o.1)), "err": c.err, "txn": txn_json(&c.txn)})).collect::<Vec<_>>()}));
    }
    db.shutdown().await;
    drop(db);
    let _ = std::fs::remove_dir_all(&dir);
}

pub fn run(args: &Args, rep: &mut Report) {
    let rt = runtime(4);
    if let Some(w) = args.load_replay() {
        rt.block_on(run_case(rep, args, w["witness"]["case_seed"].as_u64().unwrap()));
        return;
    }
    let mut case = 0u64;
    while args.time_left() && opens_left() {
        case += 1;
        rt.block_on(run_case(rep, args, args.case_seed(case)));
        if rep.violations.len() > 10 { break; }
    }
    rep.count("races", case);
}
