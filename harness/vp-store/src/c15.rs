//! C15 Concurrent readers see acknowledged writes and never go backwards.
//!
//! Writer tasks append to their own streams over several partitions; reader
//! tasks snapshot the shared registry of acknowledged appends *before* invoking
//! a read, so everything in the snapshot was acknowledged before the read
//! started and must be observed. Per reader, later reads never show less than
//! earlier ones. Hook H3 holds the writer thread inside a rollover
//! (`rollover.swapped`: live index already replaced, sealed segment not yet
//! installed in the reader pool; `rollover.installed_old`) until every reader has
//! completed a full round — the window the property names.

use std::collections::BTreeMap;
use std::sync::atomic::{AtomicBool, AtomicU64, Ordering};
use std::sync::{Arc, Mutex};
use std::time::Duration;

use sierradb::database::Database;
use sierradb::{IterDirection, StreamId};
use vpc::model::{Exp, MNewEvent, MTxn, Pid};
use vpc::{Args, Report, Rng, json};

use crate::hooks;
use crate::store::*;

#[derive(Clone, Debug)]
struct Acked {
    pid: Pid,
    stream: String,
    ids: Vec<u128>,
    first_seq: u64,
    last_seq: u64,
    last_version: u64,
}

struct Shared {
    acked: Mutex<Vec<Acked>>,
    stop: AtomicBool,
    viol: Mutex<Vec<(String, String)>>,
    reads: AtomicU64,
    rounds: Vec<AtomicU64>, // per reader: completed rounds
    window: Mutex<Option<&'static str>>, // name of the held window, if any
    reads_in_window: AtomicU64,
    hold_mode: bool,
    append_failures: AtomicU64,
    epoch: AtomicU64, // odd while a window is held
}

async fn reader_task(db: Database, sh: Arc<Shared>, rk: usize, seed: u64) {
    let mut rng = Rng::new(seed);
    let mut seen_version: BTreeMap<String, u64> = BTreeMap::new();
    let mut seen_seq: BTreeMap<Pid, u64> = BTreeMap::new();
    while !sh.stop.load(Ordering::Relaxed) {
        // snapshot BEFORE the reads of this round
        let snap: Vec<Acked> = {
            let g = sh.acked.lock().unwrap();
            let n = g.len();
            if n == 0 { Vec::new() } else {
                // newest entries (the ones a rollover window endangers) plus random older ones
                let mut v: Vec<Acked> = g[n.saturating_sub(6)..].to_vec();
                for _ in 0..4 { v.push(g[rng.usize_below(n)].clone()); }
                v
            }
        };
        if snap.is_empty() {
            tokio::time::sleep(Duration::from_millis(1)).await;
            continue;
        }
        let win = *sh.window.lock().unwrap();
        let ctx = "CTX";
        // label a failure by the window that is open when it is observed (or was at round start)
        let epoch0 = sh.epoch.load(Ordering::SeqCst);
        let push = |sig: String, what: String| {
            // a window counts if it was open at any time between the start of this round and now
            let epoch_now = sh.epoch.load(Ordering::SeqCst);
            let overlapped = epoch_now != epoch0 || epoch_now % 2 == 1;
            let now = (*sh.window.lock().unwrap()).or(win).unwrap_or(if overlapped { "round-overlapped-a-held-window" } else if sh.hold_mode { "hold-mode-no-window-open" } else { "free-running" });
            let mut g = sh.viol.lock().unwrap();
            if g.len() < 40 { g.push((sig.replace("CTX", now), what.replace("CTX", now))); }
        };
        for a in &snap {
            // event lookup
            for id in &a.ids {
                match read_event_g(&db, a.pid, *id).await {
                    Ok(Some(_)) => {}
                    Ok(None) => push(format!("C15:acked-not-visible:read_event:{ctx}"), format!("reader {rk}: event of an acknowledged append (partition {} seq {}..{}) not found by id [{ctx}]", a.pid, a.first_seq, a.last_seq)),
                    Err(e) => push(format!("C15:read-error:read_event:{ctx}"), format!("reader {rk}: {e}")),
                }
            }
            // latest queries never below an acknowledged value, and never going backwards
            let sid = StreamId::new(a.stream.clone()).unwrap();
            match db.get_stream_version(a.pid, &sid).await {
                Ok(v) => {
                    let v = v.map(|x| x.version);
                    if v.map(|x| x < a.last_version).unwrap_or(true) {
                        push(format!("C15:acked-not-visible:get_stream_version:{ctx}"), format!("reader {rk}: stream {} version {:?} is below acknowledged version {} [{ctx}]", a.stream, v, a.last_version));
                    }
                    if let Some(x) = v {
                        let e = seen_version.entry(a.stream.clone()).or_insert(x);
                        if x < *e {
                            push(format!("C15:went-backwards:get_stream_version:{ctx}"), format!("reader {rk}: stream {} version {x} after having seen {}", a.stream, *e));
                        }
                        *e = (*e).max(x);
                    }
                }
                Err(e) => push(format!("C15:read-error:get_stream_version:{ctx}"), format!("reader {rk}: {e}")),
            }
            match db.get_partition_sequence(a.pid).await {
                Ok(v) => {
                    let v = v.map(|x| x.sequence);
                    if v.map(|x| x < a.last_seq).unwrap_or(true) {
                        push(format!("C15:acked-not-visible:get_partition_sequence:{ctx}"), format!("reader {rk}: partition {} sequence {:?} is below acknowledged sequence {} [{ctx}]", a.pid, v, a.last_seq));
                    }
                    if let Some(x) = v {
                        let e = seen_seq.entry(a.pid).or_insert(x);
                        if x < *e {
                            push(format!("C15:went-backwards:get_partition_sequence:{ctx}"), format!("reader {rk}: partition {} sequence {x} after having seen {}", a.pid, *e));
                        }
                        *e = (*e).max(x);
                    }
                }
                Err(e) => push(format!("C15:read-error:get_partition_sequence:{ctx}"), format!("reader {rk}: {e}")),
            }
            // scans from the acknowledged position must contain the acknowledged events
            match scan_partition(&db, a.pid, a.first_seq, IterDirection::Forward, Consume::Batch(20)).await {
                Ok(groups) => {
                    let got: Vec<u128> = groups.iter().flatten().map(|e| e.event_id.as_u128()).collect();
                    if !a.ids.iter().all(|id| got.contains(id)) {
                        push(format!("C15:acked-not-visible:read_partition:{ctx}"), format!("reader {rk}: partition {} scan from {} lacks an acknowledged event ({} events returned) [{ctx}]", a.pid, a.first_seq, got.len()));
                    }
                }
                Err(e) => push(format!("C15:read-error:read_partition:{ctx}"), format!("reader {rk}: {e}")),
            }
            let v0 = a.last_version + 1 - a.ids.len() as u64;
            match scan_stream(&db, a.pid, &a.stream, v0, IterDirection::Forward, Consume::Batch(20)).await {
                Ok(groups) => {
                    let got: Vec<u128> = groups.iter().flatten().map(|e| e.event_id.as_u128()).collect();
                    if !a.ids.iter().all(|id| got.contains(id)) {
                        push(format!("C15:acked-not-visible:read_stream:{ctx}"), format!("reader {rk}: stream {} scan from {v0} lacks an acknowledged event ({} events returned) [{ctx}]", a.stream, got.len()));
                    }
                }
                Err(e) => push(format!("C15:read-error:read_stream:{ctx}"), format!("reader {rk}: {e}")),
            }
            sh.reads.fetch_add(5, Ordering::Relaxed);
            if win.is_some() { sh.reads_in_window.fetch_add(5, Ordering::Relaxed); }
        }
        sh.rounds[rk].fetch_add(1, Ordering::Relaxed);
        tokio::task::yield_now().await;
    }
}

async fn writer_task(db: Database, sh: Arc<Shared>, wk: usize, key: (u128, Pid), seed: u64, max_appends: usize) {
    let mut rng = Rng::new(seed);
    let mut ids = Ids { counter: (wk as u64 + 1) << 40 };
    let hash = hash_of_key(key.0);
    let stream = format!("w{wk}");
    for n in 0..max_appends {
        if sh.stop.load(Ordering::Relaxed) { break; }
        let k = 1 + rng.usize_below(3);
        let events: Vec<MNewEvent> = (0..k).map(|j| MNewEvent {
            event_id: ids.with_hash(&mut rng, hash),
            stream: stream.clone(),
            expected: Exp::Any,
            name: "E".into(),
            timestamp: 1_700_000_000_000_000_000 + n as u64 * 10 + j as u64,
            metadata: vec![],
            payload: { let sz = if rng.chance(1, 3) { 2000 + rng.usize_below(6000) } else { rng.usize_below(400) }; rng.bytes(sz) },
        }).collect();
        let t = MTxn { partition_key: key.0, partition_id: key.1, txn_id: ids.txn_id(&mut rng, k == 1), events, expected_seq: Exp::Any, confirmation_count: 0 };
        match db.append_events(to_store_txn(&t).unwrap()).await {
            Ok(r) => {
                let last_version = *r.stream_versions.values().next().unwrap();
                sh.acked.lock().unwrap().push(Acked { pid: key.1, stream: stream.clone(), ids: t.events.iter().map(|e| e.event_id).collect(), first_seq: r.first_partition_sequence, last_seq: r.last_partition_sequence, last_version });
            }
            Err(_) => {
                // refusals are C02/C19's business; this writer just stops
                sh.append_failures.fetch_add(1, Ordering::Relaxed);
                break;
            }
        }
        if rng.chance(1, 5) { tokio::task::yield_now().await; }
    }
}

async fn run_case(rep: &mut Report, args: &Args, case_seed: u64, hold_windows: bool) {
    let mut rng = Rng::new(case_seed);
    let buckets = *rng.pick(&[1u16, 2]);
    let cfg = StoreCfg {
        segment_size: 128 * 1024,
        buckets,
        writer_threads: if buckets == 2 && rng.chance(1, 2) { 2 } else { 1 },
        reader_threads: 2 + rng.below(3) as u16,
        partitions: buckets * 2,
        compression: rng.chance(1, 2),
        sync_interval_ms: *rng.pick(&[1u64, 5]),
        sync_idle_ms: 5,
        max_batch: *rng.pick(&[1usize, 50]),
        min_sync_bytes: *rng.pick(&[1usize, 4096]),
    };
    let dir = fresh_dir(&args.work, &format!("c15-{}-{case_seed}", args.shard));
    let Ok(db) = cfg.open(&dir) else { rep.inconclusive("open failed"); return; };
    rep.evaluations += 1;
    let n_writers = 2 + rng.usize_below(4);
    let n_readers = 3 + rng.usize_below(6);
    let keys = make_keys(&mut rng, cfg.partitions, 2);
    let sh = Arc::new(Shared { acked: Mutex::new(Vec::new()), stop: AtomicBool::new(false), viol: Mutex::new(Vec::new()), reads: AtomicU64::new(0),
        rounds: (0..n_readers).map(|_| AtomicU64::new(0)).collect(), window: Mutex::new(None), reads_in_window: AtomicU64::new(0), hold_mode: hold_windows, append_failures: AtomicU64::new(0), epoch: AtomicU64::new(0) });
    let mut hs = Vec::new();
    for rk in 0..n_readers {
        hs.push(tokio::spawn(reader_task(db.clone(), sh.clone(), rk, case_seed ^ (rk as u64 + 77))));
    }
    let mut ws = Vec::new();
    for wk in 0..n_writers {
        ws.push(tokio::spawn(writer_task(db.clone(), sh.clone(), wk, keys[wk % keys.len()], case_seed ^ (wk as u64 + 7), 150)));
    }
    // controller: hold rollover windows until every reader completed a full round inside
    let mut windows = 0u64;
    let mut rounds_inside = 0u64;
    let t0 = std::time::Instant::now();
    if hold_windows {
        let points: [&'static str; 2] = ["rollover.swapped", "rollover.installed_old"];
        let mut which = 0;
        while t0.elapsed() < Duration::from_secs(6) && !ws.iter().all(|w| w.is_finished()) {
            let p = points[which % 2];
            which += 1;
            hooks::arm(p, None);
            // wait for a rollover to arrive (bounded)
            let mut held = false;
            while t0.elapsed() < Duration::from_secs(6) && !ws.iter().all(|w| w.is_finished()) {
                if hooks::is_held(p) { held = true; break; }
                tokio::time::sleep(Duration::from_millis(1)).await;
            }
            if !held { hooks::release(p); break; }
            sh.epoch.fetch_add(1, Ordering::SeqCst);
            *sh.window.lock().unwrap() = Some(if p == "rollover.swapped" { "window-after-index-swap" } else { "window-after-old-segment-installed" });
            let before: Vec<u64> = sh.rounds.iter().map(|r| r.load(Ordering::Relaxed)).collect();
            let w0 = std::time::Instant::now();
            // every reader: one round started and completed inside the window => two completions
            loop {
                let done = sh.rounds.iter().zip(before.iter()).filter(|(r, b)| r.load(Ordering::Relaxed) >= **b + 2).count();
                if done == n_readers || w0.elapsed() > Duration::from_secs(4) { rounds_inside += done as u64; break; }
                tokio::time::sleep(Duration::from_millis(1)).await;
            }
            *sh.window.lock().unwrap() = None;
            hooks::release(p);
            sh.epoch.fetch_add(1, Ordering::SeqCst);
            windows += 1;
        }
        hooks::disarm_all();
    }
    for w in ws { let _ = tokio::time::timeout(Duration::from_secs(60), w).await; }
    // one more full round for every reader after the last ack
    let before: Vec<u64> = sh.rounds.iter().map(|r| r.load(Ordering::Relaxed)).collect();
    let w0 = std::time::Instant::now();
    while sh.rounds.iter().zip(before.iter()).any(|(r, b)| r.load(Ordering::Relaxed) < *b + 2) && w0.elapsed() < Duration::from_secs(5) {
        tokio::time::sleep(Duration::from_millis(2)).await;
    }
    sh.stop.store(true, Ordering::Relaxed);
    for h in hs { let _ = tokio::time::timeout(Duration::from_secs(20), h).await; }
    rep.count("reads_checked", sh.reads.load(Ordering::Relaxed));
    rep.count("acked_appends", sh.acked.lock().unwrap().len() as u64);
    rep.count("rollover_windows_held", windows);
    rep.count("writer_appends_refused", sh.append_failures.load(Ordering::Relaxed));
    rep.count("reader_rounds_completed_inside_window", rounds_inside);
    rep.count("reads_inside_window", sh.reads_in_window.load(Ordering::Relaxed));
    if windows > 0 { rep.nontrivial(&(case_seed, windows, rounds_inside)); } else { rep.nontrivial(&(case_seed, "free")); }
    let witness = json!({"case_seed": case_seed, "store": cfg.to_json(), "writers": n_writers, "readers": n_readers, "hold_windows": hold_windows});
    for (sig, what) in sh.viol.lock().unwrap().iter() {
        rep.violation(sig, what.clone(), witness.clone());
    }
    if rep.want_sample() { rep.sample(json!({"case": witness, "acked": sh.acked.lock().unwrap().len(), "windows_held": windows})); }
    db.shutdown().await;
    drop(db);
    let _ = std::fs::remove_dir_all(&dir);
}

pub fn run(args: &Args, rep: &mut Report) {
    let rt = runtime(4);
    if let Some(w) = args.load_replay() {
        let c = &w["witness"];
        rt.block_on(run_case(rep, args, c["case_seed"].as_u64().unwrap(), c["hold_windows"].as_bool().unwrap_or(true)));
        return;
    }
    let mut case = 0u64;
    while args.time_left() && opens_left() {
        case += 1;
        rt.block_on(run_case(rep, args, args.case_seed(case), case % 3 != 0));
        if rep.violations.len() > 10 { break; }
    }
    rep.count("cases", case);
}
