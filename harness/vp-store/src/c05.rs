//! C05 A crash at any point recovers to a consistent committed prefix
//! (and, for C04, no crash state exposes part of a multi-event transaction).
//!
//! Crash states are produced on the real files: a history is run to N
//! acknowledged transactions, then a tail of K transactions is appended; the
//! live segment is read with the real seglog reader to get every record's
//! [start,end). For every byte boundary c of the tail the crash state is the
//! final directory with the live segment's bytes [c, end) zeroed (the file is
//! fallocated; a process crash keeps exactly the prefix that reached write(2)).
//! Each state is reopened with the real code and audited against the model
//! prefixes M_N .. M_{N+K}; then three more transactions per touched partition
//! are appended and everything is rescanned.

use std::os::unix::fs::FileExt;
use std::path::{Path, PathBuf};

use sierradb::bucket::segment::{BucketSegmentReader, Record};
use vpc::model::{Exp, MNewEvent, MTxn, Model};
use vpc::{Args, Report, Rng, json};

use crate::store::*;

fn copy_dir(src: &Path, dst: &Path) {
    let _ = std::fs::remove_dir_all(dst);
    std::fs::create_dir_all(dst).unwrap();
    for e in std::fs::read_dir(src).unwrap() {
        let e = e.unwrap();
        let to = dst.join(e.file_name());
        if e.file_type().unwrap().is_dir() {
            copy_dir(&e.path(), &to);
        } else {
            std::fs::copy(e.path(), &to).unwrap();
        }
    }
}

#[derive(Clone, Debug)]
struct RecSpan {
    start: u64,
    end: u64,
    is_commit: bool,
    multi: bool,
}

fn live_segment_path(dir: &Path, bucket: u16) -> (PathBuf, u32) {
    let segs = dir.join("buckets").join(format!("{bucket:05}")).join("segments");
    let mut ids: Vec<u32> = std::fs::read_dir(&segs).unwrap().filter_map(|e| e.unwrap().file_name().to_str().and_then(|s| s.parse().ok())).collect();
    ids.sort();
    let id = *ids.last().unwrap();
    (segs.join(format!("{id:010}")).join("data.evts"), id)
}

fn record_spans(path: &Path) -> Vec<RecSpan> {
    let mut r = BucketSegmentReader::open(path, None).expect("open segment");
    let mut it = r.iter();
    let mut v = Vec::new();
    while let Ok(Some(rec)) = it.next_record() {
        let start = rec.offset();
        let end = start + rec.len();
        let (is_commit, multi) = match &rec {
            Record::Commit(_) => (true, true),
            Record::Event(e) => (false, !sierradb::id::get_uuid_flag(&e.transaction_id)),
        };
        v.push(RecSpan { start, end, is_commit, multi });
    }
    v
}

struct Case {
    seed: u64,
    cfg: StoreCfg,
    base_dir: PathBuf,       // final state (N + K transactions, clean shutdown)
    models: Vec<Model>,      // M_N .. M_{N+K}
    txns_tail: Vec<MTxn>,
    live_path_rel: PathBuf,  // live segment file relative to the db dir
    tail_start: u64,
    tail_end: u64,
    spans: Vec<RecSpan>,     // records of the tail
    tail_txn_ends: Vec<u64>, // end offset of each tail transaction (after its commit / single event)
    tgen: Gen,
}

async fn build_case(args: &Args, rep: &mut Report, seed: u64, big_tail: bool) -> Option<Case> {
    let mut rng = Rng::new(seed);
    // 1 case in 4 has a long base history: several sealed segments, partitions and streams that went dormant
    // before the live segment began (recovery then has to find their positions in the sealed segments)
    let long = rng.chance(1, 4);
    let cfg = StoreCfg {
        segment_size: 128 * 1024,
        buckets: 1,
        writer_threads: 1,
        reader_threads: 2,
        partitions: if long { 2 + rng.below(2) as u16 } else { 1 + rng.below(2) as u16 },
        compression: rng.chance(1, 2),
        sync_interval_ms: 1,
        sync_idle_ms: 5,
        max_batch: 50,
        min_sync_bytes: 1,
    };
    let base_dir = fresh_dir(&args.work, &format!("c05-base-{}-{seed}", args.shard));
    let db = cfg.open(&base_dir).ok()?;
    let mut model = Model::new(cfg.buckets);
    let mut g = Gen::new(&mut rng, &cfg, if long { 1 } else { 2 }, 2);
    if long {
        g.phase_len = 30 + rng.below(40);
    }
    let opts = GenOpts { wrong_pct: 0, max_events: 4, big_payload_pct: if long { 40 } else { 10 }, max_payload: 6000, key_conflict_pct: 0 };
    let n = if long { 120 + rng.usize_below(150) } else { 3 + rng.usize_below(14) };
    if long {
        rep.count("cases_with_sealed_segments", 1);
    }
    for _ in 0..n {
        let t = g.txn(&mut rng, &model, &opts);
        if model.check(&t).is_ok() && db.append_events(to_store_txn(&t).unwrap()).await.is_ok() {
            model.apply(&t).unwrap();
        }
    }
    db.shutdown().await;
    drop(db);
    let (live_path, seg_before) = live_segment_path(&base_dir, 0);
    let spans_before = record_spans(&live_path);
    let tail_start = spans_before.last().map(|s| s.end).unwrap_or(48);
    // tail
    let db = cfg.open(&base_dir).ok()?;
    let mut models = vec![model.clone()];
    let mut tail = Vec::new();
    let k = 1 + rng.usize_below(4);
    let topts = GenOpts { wrong_pct: 0, max_events: 4, big_payload_pct: if big_tail { 30 } else { 0 }, max_payload: 3000, key_conflict_pct: 0 };
    let mut tries = 0;
    while tail.len() < k && tries < 20 {
        tries += 1;
        let mut t = g.txn(&mut rng, &model, &topts);
        if !big_tail {
            for e in t.events.iter_mut() {
                e.payload.truncate(40);
                e.metadata.truncate(6);
            }
        }
        // make sure multi-event transactions are common in the tail
        if model.check(&t).is_ok() && db.append_events(to_store_txn(&t).unwrap()).await.is_ok() {
            model.apply(&t).unwrap();
            models.push(model.clone());
            tail.push(t);
        }
    }
    db.shutdown().await;
    drop(db);
    let (live_path2, seg_after) = live_segment_path(&base_dir, 0);
    if seg_after != seg_before || tail.is_empty() {
        rep.count("cases_skipped_rollover_in_tail", 1);
        let _ = std::fs::remove_dir_all(&base_dir);
        return None;
    }
    let spans_all = record_spans(&live_path2);
    let spans: Vec<RecSpan> = spans_all.into_iter().filter(|s| s.start >= tail_start).collect();
    let tail_end = spans.last().map(|s| s.end)?;
    // transaction ends: a single event ends its transaction; a commit ends a multi-event one
    let mut ends = Vec::new();
    for s in &spans {
        if s.is_commit || !s.multi {
            ends.push(s.end);
        }
    }
    if ends.len() != tail.len() {
        rep.inconclusive(format!("tail layout not understood: {} transaction ends for {} transactions", ends.len(), tail.len()));
        return None;
    }
    Some(Case { seed, cfg, base_dir: base_dir.clone(), models, txns_tail: tail, live_path_rel: live_path2.strip_prefix(&base_dir).unwrap().to_path_buf(), tail_start, tail_end, spans, tail_txn_ends: ends, tgen: g })
}

fn cut_class(c: &Case, cut: u64) -> &'static str {
    for (i, s) in c.spans.iter().enumerate() {
        if cut > s.start && cut < s.end {
            return if s.is_commit { "inside-commit-record" } else if s.multi { "inside-event-of-multi-event-txn" } else { "inside-single-event" };
        }
        if cut == s.end {
            // boundary after record i
            if !s.is_commit && s.multi {
                let next_is_commit = c.spans.get(i + 1).map(|n| n.is_commit).unwrap_or(false);
                return if next_is_commit { "between-last-event-and-commit" } else { "between-events-of-multi-event-txn" };
            }
            return "between-transactions";
        }
    }
    if cut == c.tail_start { "between-transactions" } else { "other" }
}

async fn check_cut(rep: &mut Report, args: &Args, c: &mut Case, cut: u64, prop: &str) {
    rep.evaluations += 1;
    let class = cut_class(c, cut);
    rep.count(&format!("cuts.{class}"), 1);
    let work = args.work.join(format!("c05-w-{}-{}", args.shard, c.seed));
    copy_dir(&c.base_dir, &work);
    // crash state: zero [cut, tail_end) of the live segment
    {
        let f = std::fs::OpenOptions::new().write(true).open(work.join(&c.live_path_rel)).unwrap();
        let zeros = vec![0u8; (c.tail_end - cut) as usize];
        f.write_all_at(&zeros, cut).unwrap();
    }
    let witness = json!({"case_seed": c.seed, "cut": cut, "cut_class": class, "tail_start": c.tail_start, "tail_end": c.tail_end,
                         "tail": c.txns_tail.iter().map(txn_json).collect::<Vec<_>>(), "store": c.cfg.to_json()});
    let db = match c.cfg.open(&work) {
        Ok(db) => db,
        Err(e) => {
            let kind = if e.contains("panicked") { "panic" } else { "error" };
            rep.violation(&format!("{prop}:reopen-{kind}:{class}"), format!("reopening the crash state (cut at {cut}, {class}) failed: {e}"), witness);
            return;
        }
    };
    // expected prefix: number of tail transactions fully on disk
    let full = c.tail_txn_ends.iter().filter(|e| **e <= cut).count();
    // every candidate prefix M_N..M_{N+K}; the fully-written count first
    let mut order: Vec<usize> = vec![full];
    order.extend((0..c.models.len()).filter(|j| *j != full));
    let mut matched: Option<usize> = None;
    let mut first_findings: Vec<Finding> = Vec::new();
    for j in order {
        let mut out = Vec::new();
        audit_all(&db, &c.models[j], &mut out).await;
        if out.is_empty() {
            // nothing beyond the prefix may be visible: check the next transaction's events by id
            let mut leaked = None;
            for t in c.txns_tail.iter().skip(j) {
                for e in &t.events {
                    if let Ok(Some(_)) = read_event_g(&db, t.partition_id, e.event_id).await {
                        leaked = Some(e.event_id);
                    }
                }
            }
            if let Some(id) = leaked {
                first_findings.push(Finding { api: "read_event", class: "uncommitted-visible".into(), what: format!("event {id:032x} of a transaction beyond the recovered prefix is returned by id") });
                continue;
            }
            matched = Some(j);
            break;
        }
        if first_findings.is_empty() {
            first_findings = out;
        }
    }
    let Some(j) = matched else {
        let f = first_findings.first().cloned().unwrap_or(Finding { api: "audit", class: "mismatch".into(), what: "no prefix matches".into() });
        rep.violation(
            &format!("{prop}:recovered-state-is-no-committed-prefix:{}:{}:{class}", f.api, f.class),
            format!("crash state (cut at {cut}, {class}; {full} of {} tail transactions fully written) equals none of the model prefixes; against the expected prefix: {}: {}", c.txns_tail.len(), f.api, f.what),
            witness,
        );
        db.shutdown().await;
        return;
    };
    if j != full {
        rep.count("recovered_prefix_differs_from_fully_written_count", 1);
    }
    if prop == "C04" {
        // all-or-nothing is implied by equality with a model prefix (audit_all compares every
        // scan and lookup); nothing more to do for this property
        db.shutdown().await;
        if class != "between-transactions" {
            rep.nontrivial(&(c.seed, cut));
        }
        return;
    }
    // continuation: further appends continue sequences and versions with no gap and no reuse
    let mut model = c.models[j].clone();
    let mut rng = Rng::new(c.seed ^ cut);
    let opts = GenOpts { wrong_pct: 0, max_events: 3, big_payload_pct: 0, max_payload: 0, key_conflict_pct: 0 };
    let mut g = Gen { ids: Ids { counter: c.tgen.ids.counter + 1_000_000 + cut * 16 }, keys: c.tgen.keys.clone(), streams_per_key: c.tgen.streams_per_key, op_counter: c.tgen.op_counter + 1_000_000, only_key: None, phase_len: 0 };
    let mut bad = false;
    for _ in 0..(3 * c.cfg.partitions as usize + 2) {
        let t = g.txn(&mut rng, &model, &opts);
        let want = match model.check(&t) {
            Ok(a) => a,
            Err(_) => continue,
        };
        match db.append_events(to_store_txn(&t).unwrap()).await {
            Ok(r) => {
                if let Some(d) = diff_assigned(&r, &want) {
                    let kind = if r.first_partition_sequence > want.first_seq { "gap" } else if r.first_partition_sequence < want.first_seq { "reuse" } else { "stream-version" };
                    rep.violation(&format!("C05:continuation:{kind}:{class}"), format!("append after recovery (cut at {cut}, {class}) was assigned {d}"), witness.clone());
                    bad = true;
                    break;
                }
                model.apply(&t).unwrap();
            }
            Err(e) => {
                rep.violation(&format!("C05:continuation:append-refused:{}:{class}", write_error_class(&e)), format!("valid append after recovery (cut at {cut}, {class}) refused: {e}"), witness.clone());
                bad = true;
                break;
            }
        }
    }
    if !bad {
        let mut out = Vec::new();
        audit_all(&db, &model, &mut out).await;
        if let Some(f) = out.first() {
            rep.violation(&format!("C05:after-continuation:{}:{}:{class}", f.api, f.class), format!("after recovery (cut at {cut}, {class}) and further appends: {}: {}", f.api, f.what), witness.clone());
        }
    }
    db.shutdown().await;
    drop(db);
    if class != "between-transactions" {
        rep.nontrivial(&(c.seed, cut));
    }
    let _ = std::fs::remove_dir_all(&work);
}

pub fn run(args: &Args, rep: &mut Report) {
    let rt = runtime(2);
    let prop = args.prop.clone();
    let thorough = args.tier.is_thorough();
    // every case is split over `parts` shards (cut index modulo), because a process can only
    // open a bounded number of databases
    let parts = args.opt_u64("parts", 4);
    let (case_idx, part) = (args.shard / parts, args.shard % parts);
    if let Some(w) = args.load_replay() {
        let w = &w["witness"];
        let seed = w["case_seed"].as_u64().unwrap();
        let cut = w["cut"].as_u64().unwrap();
        rt.block_on(async {
            for big in [false, true] {
                if let Some(mut c) = build_case(args, rep, seed, big).await {
                    if cut >= c.tail_start && cut <= c.tail_end {
                        check_cut(rep, args, &mut c, cut, &prop).await;
                    }
                    let _ = std::fs::remove_dir_all(&c.base_dir);
                }
            }
        });
        return;
    }
    rt.block_on(async {
        let mut round = 0u64;
        while args.time_left() && opens_left() {
            // same case seed for all parts of one case
            let seed = vpc::derive_seed(args.seed, &[0xC05, case_idx, round]);
            round += 1;
            let big_tail = thorough && round % 2 == 0;
            let Some(mut c) = build_case(args, rep, seed, big_tail).await else { continue };
            rep.count("cases", 1);
            // all byte cuts of the tail (quick: short tails; thorough adds longer tails where
            // cuts beyond 8 KiB are taken at every record/field boundary +-2)
            let mut cuts: Vec<u64> = Vec::new();
            let len = c.tail_end - c.tail_start;
            if len <= 8192 {
                cuts.extend(c.tail_start..=c.tail_end);
            } else {
                cuts.extend(c.tail_start..c.tail_start + 8192);
                for s in &c.spans {
                    for d in [0i64, 1, 2, 7, 8, 9, 24, 25, 33] {
                        cuts.push((s.start as i64 + d) as u64);
                    }
                    for d in [-2i64, -1, 0] {
                        cuts.push((s.end as i64 + d) as u64);
                    }
                }
                cuts.retain(|x| *x >= c.tail_start && *x <= c.tail_end);
                cuts.sort();
                cuts.dedup();
            }
            let mine: Vec<u64> = cuts.iter().enumerate().filter(|(i, _)| *i as u64 % parts == part).map(|(_, c)| *c).collect();
            rep.count("tail_bytes", len);
            for cut in mine {
                if !args.time_left() || !opens_left() {
                    rep.note("stopped inside a case at the time / open budget");
                    break;
                }
                check_cut(rep, args, &mut c, cut, &prop).await;
                if rep.violations.len() > 8 {
                    break;
                }
            }
            if rep.want_sample() {
                rep.sample(json!({"case_seed": c.seed, "store": c.cfg.to_json(), "acked_before_tail": c.models[0].txns.len(), "tail_transactions": c.txns_tail.iter().map(txn_json).collect::<Vec<_>>(),
                                  "tail_bytes": [c.tail_start, c.tail_end], "records_in_tail": c.spans.len()}));
            }
            let _ = std::fs::remove_dir_all(&c.base_dir);
            if rep.violations.len() > 8 {
                break;
            }
        }
    });
    let _ = (Exp::Any, None::<MNewEvent>);
}
