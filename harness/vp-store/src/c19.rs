//! C19 Appends that fit an empty segment never fail for lack of space.
//!
//! The *stored* size of a transaction is measured by writing the same records
//! through the real BucketSegmentWriter into a scratch segment (same compression
//! setting). The live segment is pre-filled (exactly, using the end offsets the
//! txn_written hook reports) so that the free space f sweeps the interval around
//! both the store's estimate and the measured stored size, byte by byte in a
//! +-48 B band and coarsely elsewhere. A probe that fits an empty segment must be
//! accepted within three attempts.

use std::path::Path;

use sierradb::StreamId;
use sierradb::bucket::segment::{BucketSegmentWriter, LongBytes, RawCommit, RawEvent, RecordHeader, SEGMENT_HEADER_SIZE, ShortString};
use uuid::Uuid;
use vpc::model::{Exp, MNewEvent, MTxn};
use vpc::{Args, Report, Rng, json};

use crate::hooks;
use crate::store::*;

/// Stored size of the transaction's records (events + commit), measured with the real writer.
fn measure(scratch: &Path, t: &MTxn, compression: bool, pos: &Positions) -> usize {
    let _ = std::fs::remove_file(scratch);
    let mut w = BucketSegmentWriter::create(scratch, 0, 64 * 1024 * 1024, compression).expect("scratch segment");
    let txn = Uuid::from_u128(t.txn_id);
    let mut total = 0;
    let mut seq = pos.next_seq;
    let mut vers = pos.next_version.clone();
    for e in &t.events {
        let v = vers.entry(e.stream.clone()).or_insert(0);
        let (this_seq, this_version) = (seq, *v);
        seq += 1;
        *v += 1;
        let raw = RawEvent {
            header: RecordHeader::new_event(e.timestamp, txn).unwrap(),
            event_id: Uuid::from_u128(e.event_id).into_bytes(),
            partition_key: Uuid::from_u128(t.partition_key).into_bytes(),
            partition_id: t.partition_id,
            partition_sequence: this_seq,
            stream_version: this_version,
            stream_id: StreamId::new(e.stream.clone()).unwrap(),
            event_name: ShortString(e.name.clone()),
            metadata: LongBytes(e.metadata.clone()),
            payload: LongBytes(e.payload.clone()),
        };
        total += w.append_event(0, &raw).expect("scratch append").1;
    }
    if t.events.len() > 1 {
        total += w.append_commit(0, &RawCommit { header: RecordHeader::new_commit(1, txn).unwrap(), event_count: t.events.len() as u32 }).unwrap().1;
    }
    drop(w);
    let _ = std::fs::remove_file(scratch);
    total
}

fn estimate(t: &MTxn) -> usize {
    // the store's own estimate (writer_thread_pool::handle_append_events): uncompressed sizes
    t.events.iter().map(stored_event_size).sum::<usize>() + if t.events.len() > 1 { 8 + 1 + 8 + 16 + 4 } else { 0 }
}

fn payload(rng: &mut Rng, n: usize, kind: u64) -> Vec<u8> {
    match kind {
        0 => rng.bytes(n),                                       // incompressible
        1 => vec![b'z'; n],                                      // highly compressible
        _ => (0..n).map(|i| if i % 3 == 0 { rng.next_u32() as u8 } else { b'q' }).collect(), // mixed
    }
}

/// The numbers the store will assign next (they are part of the compressed bytes).
#[derive(Clone, Default)]
struct Positions {
    next_seq: u64,
    next_version: std::collections::BTreeMap<String, u64>,
}

impl Positions {
    fn advance(&mut self, t: &MTxn) {
        for e in &t.events {
            self.next_seq += 1;
            *self.next_version.entry(e.stream.clone()).or_insert(0) += 1;
        }
    }
}

struct World {
    rng: Rng,
    ids: Ids,
    key: (u128, u16),
    hash: u16,
    n: u64,
}

impl World {
    fn txn(&mut self, sizes: &[usize], kind: u64) -> MTxn {
        self.n += 1;
        let events: Vec<MNewEvent> = sizes
            .iter()
            .enumerate()
            .map(|(j, sz)| MNewEvent {
                event_id: self.ids.with_hash(&mut self.rng, self.hash),
                stream: format!("s{}", j % 2),
                expected: Exp::Any,
                name: "Ev".into(),
                timestamp: 1_700_000_000_000_000_000 + self.n,
                metadata: vec![],
                payload: payload(&mut self.rng, *sz, kind),
            })
            .collect();
        let single = events.len() == 1;
        MTxn { partition_key: self.key.0, partition_id: self.key.1, txn_id: self.ids.txn_id(&mut self.rng, single), events, expected_seq: Exp::Any, confirmation_count: 0 }
    }
}

fn last_end_offset() -> Option<(u64, u64)> {
    // (segment, end offset) of the last transaction written
    hooks::snapshot_log().iter().rev().find(|e| e.name == "txn_written" && e.args[6] == 1).map(|e| (e.args[1], e.args[3]))
}

async fn run_case(rep: &mut Report, args: &Args, case_seed: u64, forced: Option<(u64, u64)>) {
    let mut rng = Rng::new(case_seed);
    let seg = *rng.pick(&[128 * 1024usize, 128 * 1024, 256 * 1024, 1024 * 1024]);
    let compression = rng.chance(2, 3) || forced.is_some();
    let cfg = StoreCfg { segment_size: seg, buckets: 1, writer_threads: 1, reader_threads: 2, partitions: 1, compression, sync_interval_ms: 1, sync_idle_ms: 1, max_batch: 1, min_sync_bytes: 1 };
    let dir = fresh_dir(&args.work, &format!("c19-{}-{case_seed}", args.shard));
    let scratch = args.work.join(format!("c19-scratch-{}.seg", args.shard));
    let Ok(db) = cfg.open(&dir) else { rep.inconclusive("open failed"); return; };
    hooks::clear_log();
    let key = make_keys(&mut rng, 1, 1)[0];
    let mut w = World { rng: Rng::new(case_seed ^ 9), ids: Ids::new(), key, hash: hash_of_key(key.0), n: 0 };
    // the probe: content kind, shape and size class
    let kind = forced.map(|f| f.0).unwrap_or_else(|| rng.below(3));
    let shape: Vec<usize> = match forced.map(|f| f.1).unwrap_or_else(|| rng.below(6)) {
        0 => vec![rng.usize_below(200)],
        1 => vec![200 + rng.usize_below(4000)],
        2 => vec![rng.usize_below(3000), rng.usize_below(3000)],
        3 => vec![(seg / 2) + rng.usize_below(seg / 3)],                       // large, fits
        4 => vec![seg - 200 + rng.usize_below(400)],                           // around the segment size
        _ => vec![rng.usize_below(500), rng.usize_below(20_000), rng.usize_below(500)],
    };
    let probe_proto = w.txn(&shape, kind);
    let e_est = estimate(&probe_proto);
    let mut pos = Positions::default();
    let a_stored = measure(&scratch, &probe_proto, compression, &pos);
    let fits_empty = SEGMENT_HEADER_SIZE + a_stored <= seg;
    let kind_name = ["incompressible", "compressible", "mixed"][kind as usize];
    let case = json!({"case_seed": case_seed, "segment_size": seg, "compression": compression, "payload_kind": kind_name,
                      "forced": forced.map(|f| vec![f.0, f.1]), "event_payload_sizes": shape, "estimate": e_est, "stored": a_stored, "fits_empty_segment": fits_empty});
    if !fits_empty {
        rep.count("probes_that_do_not_fit", 1);
    }
    // free-space targets: a band around the estimate and around the stored size, plus coarse points
    let mut targets: Vec<i64> = Vec::new();
    for c in [e_est as i64, a_stored as i64] {
        for d in -48i64..=48 { targets.push(c + d); }
    }
    for _ in 0..12 { targets.push(rng.below(seg as u64 - 100) as i64); }
    targets.push(0); targets.push(1);
    targets.retain(|f| *f >= 0 && (*f as usize) < seg - SEGMENT_HEADER_SIZE - 200);
    targets.sort(); targets.dedup();
    rng.shuffle(&mut targets);
    let mut cur_seg = 0u64;
    let mut cur_off = SEGMENT_HEADER_SIZE as u64;
    for f in targets {
        if !args.time_left() { break; }
        // ---- fill the live segment so that exactly f bytes are free --------------------
        let want_off = seg as i64 - f;
        if (cur_off as i64) > want_off {
            // roll over with a filler that cannot fit the remaining space, then continue in the new segment
            let fill = w.txn(&[(seg as u64 - cur_off).min(seg as u64 / 2) as usize + 64], 0);
            if db.append_events(to_store_txn(&fill).unwrap()).await.is_err() { break; }
            pos.advance(&fill);
            match last_end_offset() { Some((s, o)) => { cur_seg = s; cur_off = o; } None => { rep.inconclusive("hook txn_written not observed"); break; } }
            if (cur_off as i64) > want_off { continue; }
        }
        let mut guard = 0;
        let mut exact = false;
        while (cur_off as i64) < want_off && guard < 200 {
            guard += 1;
            let gap = (want_off - cur_off as i64) as usize;
            // filler stored size must be exactly `gap` for the last one; coarse before
            let target = if gap > 24_000 { 16_000 } else { gap };
            if target < 160 { break; } // cannot place a record that small: this target is unreachable from here
            // find a payload length whose measured stored size equals `target`
            let mut n = target.saturating_sub(140);
            let mut fill = w.txn(&[n], 0);
            let mut m = measure(&scratch, &fill, compression, &pos);
            let mut tries = 0;
            while m != target && tries < 12 {
                n = (n as i64 + target as i64 - m as i64).max(0) as usize;
                let id = fill.events[0].event_id;
                fill.events[0].payload = payload(&mut w.rng, n, 0);
                fill.events[0].event_id = id;
                m = measure(&scratch, &fill, compression, &pos);
                tries += 1;
            }
            if m > gap { break; }
            match db.append_events(to_store_txn(&fill).unwrap()).await {
                Ok(_) => pos.advance(&fill),
                Err(_) => break,
            }
            match last_end_offset() { Some((s, o)) => { if s != cur_seg { cur_seg = s; } cur_off = o; } None => break }
        }
        if cur_off as i64 == want_off { exact = true; }
        let free = seg as u64 - cur_off;
        // ---- the probe ------------------------------------------------------------------
        let mut probe = w.txn(&shape, kind);
        for (e, p) in probe.events.iter_mut().zip(probe_proto.events.iter()) { e.payload = p.payload.clone(); }
        let a_now = measure(&scratch, &probe, compression, &pos);
        let e_now = estimate(&probe);
        rep.evaluations += 1;
        let mut accepted = false;
        let mut last_err = String::new();
        let mut attempts = 0;
        for _ in 0..3 {
            attempts += 1;
            match db.append_events(to_store_txn(&probe).unwrap()).await {
                Ok(_) => { accepted = true; pos.advance(&probe); break; }
                Err(e) => {
                    last_err = format!("{} ({e})", write_error_class(&e));
                    let class = write_error_class(&e);
                    if class != "segment-full" && class != "exceeds-segment" { break; }
                }
            }
        }
        let fits = SEGMENT_HEADER_SIZE + a_now <= seg;
        let relation = if e_now + SEGMENT_HEADER_SIZE > seg { "estimate-exceeds-segment" } else if (free as usize) < e_now.min(a_now) { "free<both" } else if (free as usize) >= e_now.max(a_now) { "free>=both" } else if e_now <= free as usize { "estimate<=free<stored" } else { "stored<=free<estimate" };
        rep.count(&format!("probes.{relation}"), 1);
        if exact { rep.count("probes_at_exact_free_space", 1); }
        if fits && (relation == "estimate<=free<stored" || relation == "stored<=free<estimate" || relation == "estimate-exceeds-segment") {
            rep.nontrivial(&(case_seed, free));
        }
        if fits && !accepted {
            let class = last_err.split(' ').next().unwrap_or("other").to_string();
            rep.violation(
                &format!("C19:refused:{class}:{relation}"),
                format!("a transaction whose stored size ({a_now} B + {SEGMENT_HEADER_SIZE} B header) fits an empty {seg} B segment was refused {attempts} times with {last_err}; free space {free}, store estimate {e_now}, stored {a_now}"),
                json!({"case": case, "free_space": free, "relation": relation}),
            );
        }
        if !fits && accepted {
            rep.violation("C19:accepted-although-larger-than-a-segment", format!("stored {a_now} + header > segment {seg} but accepted"), json!({"case": case, "free_space": free}));
        }
        match last_end_offset() { Some((s, o)) => { cur_seg = s; cur_off = o; } None => break }
        if rep.violations.len() > 12 { break; }
    }
    if rep.want_sample() { rep.sample(case); }
    db.shutdown().await;
    drop(db);
    let _ = std::fs::remove_dir_all(&dir);
}

pub fn run(args: &Args, rep: &mut Report) {
    let rt = runtime(2);
    if let Some(w) = args.load_replay() {
        rt.block_on(run_case(rep, args, w["witness"]["case"]["case_seed"].as_u64().unwrap(), w["witness"]["case"]["forced"].as_array().map(|a| (a[0].as_u64().unwrap(), a[1].as_u64().unwrap()))));
        return;
    }
    let mut case = 0u64;
    // directed cases first (deterministic witnesses of the two known refusal classes)
    if args.shard == 0 {
        rt.block_on(run_case(rep, args, 19_001, Some((0, 1)))); // incompressible, compression on, 200..4200 B payload
        rt.block_on(run_case(rep, args, 19_002, Some((1, 4)))); // compressible, compression on, payload ~ segment size
    }
    while args.time_left() && opens_left() {
        case += 1;
        rt.block_on(run_case(rep, args, args.case_seed(case), None));
        if rep.violations.len() > 12 { break; }
    }
    rep.count("cases", case);
}
