//! vp-store: workloads on the real `sierradb::Database`
//! (C01 C02 C03 C04 C05 C06 C15 C16 C19 C20).

mod c03;
mod c04;
mod c05;
mod c06;
mod c15;
mod c16;
mod c19;
mod c20;
mod history;
mod hooks;
mod store;

use vpc::{Args, Report};

fn main() {
    let args = Args::parse();
    let mut rep = Report::new(&args.prop);
    vpc::quiet_panics();
    store::raise_fd_limit();
    hooks::install();
    match args.prop.as_str() {
        "C01" | "C02" => history::run(&args, &mut rep),
        "C03" => c03::run(&args, &mut rep),
        "C04" => c04::run(&args, &mut rep),
        "C05" => c05::run(&args, &mut rep),
        "C06" => c06::run(&args, &mut rep),
        "C15" => c15::run(&args, &mut rep),
        "C16" => c16::run(&args, &mut rep),
        "C19" => c19::run(&args, &mut rep),
        "C20" => c20::run(&args, &mut rep),
        p => rep.inconclusive(format!("vp-store does not serve {p}")),
    }
    if hooks::pause_timeouts() > 0 {
        rep.inconclusive(format!("{} pause points timed out (harness)", hooks::pause_timeouts()));
    }
    rep.write(&args);
    // the database's reader pools are leaked by design of the code under test; do not wait for them
    std::process::exit(0);
}
