//! C06 A crash during segment rollover neither loses data nor blocks reopening.
//!
//! A sealed segment's three index files (index.eidx, partition.pidx,
//! stream.sidx) are written by a background thread after the rollover. A crash
//! in that window leaves each of them empty, a write prefix, or complete. Those
//! states are produced on the real files of a cleanly shut down database, for
//! every sealed segment and file kind, singly and all three together; each state
//! is reopened with the real code and every acknowledged event of that segment
//! must be found by id, by stream and by partition.
//! The thorough tier adds the real crash: a child process is killed (SIGKILL)
//! while hook `index_flush.before` holds the background flush.

use std::path::{Path, PathBuf};

use vpc::model::Model;
use vpc::{Args, Report, Rng, json};

use crate::store::*;

const KINDS: [(&str, &str); 3] = [("eidx", "index.eidx"), ("pidx", "partition.pidx"), ("sidx", "stream.sidx")];

fn copy_dir(src: &Path, dst: &Path) {
    let _ = std::fs::remove_dir_all(dst);
    std::fs::create_dir_all(dst).unwrap();
    for e in std::fs::read_dir(src).unwrap() {
        let e = e.unwrap();
        let to = dst.join(e.file_name());
        if e.file_type().unwrap().is_dir() {
            copy_dir(&e.path(), &to);
        } else {
            std::fs::copy(e.path(), &to).unwrap();
        }
    }
}

fn sealed_segments(dir: &Path, bucket: u16) -> Vec<PathBuf> {
    let segs = dir.join("buckets").join(format!("{bucket:05}")).join("segments");
    let mut v: Vec<PathBuf> = std::fs::read_dir(&segs).unwrap().map(|e| e.unwrap().path()).collect();
    v.sort();
    v.pop(); // the live one
    v
}

struct Base {
    seed: u64,
    cfg: StoreCfg,
    dir: PathBuf,
    model: Model,
}

async fn build_base(args: &Args, rep: &mut Report, seed: u64) -> Option<Base> {
    let mut rng = Rng::new(seed);
    let cfg = StoreCfg {
        segment_size: 128 * 1024,
        buckets: 1,
        writer_threads: 1,
        reader_threads: 2,
        partitions: 1 + rng.below(3) as u16,
        compression: rng.chance(1, 2),
        sync_interval_ms: 1,
        sync_idle_ms: 5,
        max_batch: 50,
        min_sync_bytes: 4096,
    };
    let dir = fresh_dir(&args.work, &format!("c06-base-{}-{seed}", args.shard));
    let db = cfg.open(&dir).ok()?;
    let mut model = Model::new(1);
    let mut g = Gen::new(&mut rng, &cfg, 2, 2);
    let opts = GenOpts { wrong_pct: 0, max_events: 4, big_payload_pct: 35, max_payload: 30_000, key_conflict_pct: 0 };
    let want_rollovers = 1 + rng.usize_below(3);
    let mut guard = 0;
    loop {
        guard += 1;
        let t = g.txn(&mut rng, &model, &opts);
        if model.check(&t).is_ok() && db.append_events(to_store_txn(&t).unwrap()).await.is_ok() {
            model.apply(&t).unwrap();
        }
        let sealed = sealed_segments(&dir, 0).len();
        if sealed >= want_rollovers || guard > 400 {
            break;
        }
    }
    // a few more in the live segment
    for _ in 0..3 {
        let t = g.txn(&mut rng, &model, &opts);
        if model.check(&t).is_ok() && db.append_events(to_store_txn(&t).unwrap()).await.is_ok() {
            model.apply(&t).unwrap();
        }
    }
    db.shutdown().await;
    drop(db);
    // the background flush of the sealed segments' indexes must have completed for the base state
    let t0 = std::time::Instant::now();
    loop {
        let done = sealed_segments(&dir, 0).iter().all(|s| KINDS.iter().all(|(_, f)| std::fs::metadata(s.join(f)).map(|m| m.len() > 0).unwrap_or(false)));
        if done {
            break;
        }
        if t0.elapsed().as_secs() > 10 {
            rep.inconclusive("background index flush did not complete within 10 s of shutdown");
            return None;
        }
        std::thread::sleep(std::time::Duration::from_millis(20));
    }
    std::thread::sleep(std::time::Duration::from_millis(50));
    Some(Base { seed, cfg, dir, model })
}

fn prefix_lengths(len: u64, rng: &mut Rng, thorough: bool) -> Vec<u64> {
    let mut v: Vec<u64> = (1..len.min(if thorough { 512 } else { 40 })).collect();
    // structural boundaries: magic(4) count(8) mphf_len(8) ... +-1
    for b in [4u64, 12, 20, 28] {
        for d in [-1i64, 0, 1] {
            v.push((b as i64 + d) as u64);
        }
    }
    let step = if thorough { 8 } else { 64 };
    let mut x = 48;
    while x < len {
        v.push(x);
        x += step;
    }
    for _ in 0..(if thorough { 40 } else { 6 }) {
        v.push(1 + rng.below(len.max(2) - 1));
    }
    v.push(len - 1);
    v.retain(|x| *x > 0 && *x < len);
    v.sort();
    v.dedup();
    v
}

async fn check_state(rep: &mut Report, args: &Args, b: &Base, seg: &Path, damage: &[(usize, u64)], label: &str) {
    rep.evaluations += 1;
    let work = args.work.join(format!("c06-w-{}-{}", args.shard, b.seed));
    copy_dir(&b.dir, &work);
    let seg_rel = seg.strip_prefix(&b.dir).unwrap();
    let mut desc = Vec::new();
    for (k, newlen) in damage {
        let f = work.join(seg_rel).join(KINDS[*k].1);
        let file = std::fs::OpenOptions::new().write(true).open(&f).unwrap();
        file.set_len(*newlen).unwrap();
        desc.push(format!("{}={}", KINDS[*k].0, newlen));
    }
    let kinds: Vec<&str> = damage.iter().map(|(k, _)| KINDS[*k].0).collect();
    let kind_tag = if kinds.len() == 3 { "all".to_string() } else { kinds.join("+") };
    let witness = json!({"case_seed": b.seed, "segment": seg_rel.to_string_lossy(), "state": desc, "label": label, "store": b.cfg.to_json()});
    rep.nontrivial(&(kind_tag.clone(), label.to_string()));
    rep.count(&format!("states.{kind_tag}.{label}"), 1);
    match b.cfg.open(&work) {
        Err(e) => {
            // symptom classes: cannot-serve (open fails or a read fails: loud), silently-missing (reads succeed but
            // acknowledged events are not returned),
            // open-panic, wrong-data (something else than the acknowledged events is returned)
            let sym = if e.contains("panicked") { "open-panic" } else { "cannot-serve" };
            rep.count(&format!("symptoms.{kind_tag}.{label}.open-error"), 1);
            rep.violation(&format!("C06:{kind_tag}:{label}:{sym}"), format!("sealed segment {} with {desc:?}: {e}", seg_rel.display()), witness);
        }
        Ok(db) => {
            let mut out = Vec::new();
            audit_all(&db, &b.model, &mut out).await;
            if let Some(f) = out.first() {
                rep.count(&format!("symptoms.{kind_tag}.{label}.read-{}", f.class), 1);
                let sym = match f.class.as_str() {
                    "error" => "cannot-serve",
                    // no error anywhere, the acknowledged events are simply not there: silent loss
                    "missing" | "not-found" => "silently-missing",
                    _ => "wrong-data",
                };
                rep.violation(&format!("C06:{kind_tag}:{label}:{sym}"), format!("sealed segment {} with {desc:?}: reopened, but {}: {}", seg_rel.display(), f.api, f.what), witness);
            }
            db.shutdown().await;
        }
    }
    let _ = std::fs::remove_dir_all(&work);
}

pub fn run(args: &Args, rep: &mut Report) {
    let rt = runtime(2);
    let thorough = args.tier.is_thorough();
    if let Some(w) = args.load_replay() {
        let w = &w["witness"];
        let seed = w["case_seed"].as_u64().unwrap();
        rt.block_on(async {
            if let Some(b) = build_base(args, rep, seed).await {
                let seg = b.dir.join(w["segment"].as_str().unwrap());
                let damage: Vec<(usize, u64)> = w["state"].as_array().unwrap().iter().map(|s| {
                    let (k, n) = s.as_str().unwrap().split_once('=').unwrap();
                    (KINDS.iter().position(|x| x.0 == k).unwrap(), n.parse().unwrap())
                }).collect();
                check_state(rep, args, &b, &seg, &damage, w["label"].as_str().unwrap_or("replay")).await;
                let _ = std::fs::remove_dir_all(&b.dir);
            }
        });
        return;
    }
    rt.block_on(async {
        let mut round = 0u64;
        while args.time_left() && opens_left() {
            round += 1;
            let seed = args.case_seed(round);
            let Some(b) = build_base(args, rep, seed).await else { continue };
            rep.count("histories", 1);
            let mut rng = Rng::new(seed ^ 0xC06);
            let sealed = sealed_segments(&b.dir, 0);
            rep.count("sealed_segments", sealed.len() as u64);
            // sanity: the undamaged base must reopen and audit clean (complete state)
            check_state(rep, args, &b, &sealed[0], &[], "complete").await;
            'segs: for seg in &sealed {
                let lens: Vec<u64> = KINDS.iter().map(|(_, f)| std::fs::metadata(seg.join(f)).unwrap().len()).collect();
                for k in 0..3 {
                    check_state(rep, args, &b, seg, &[(k, 0)], "empty").await;
                    for p in prefix_lengths(lens[k], &mut rng, thorough) {
                        if !args.time_left() || !opens_left() {
                            break 'segs;
                        }
                        check_state(rep, args, &b, seg, &[(k, p)], "truncated").await;
                    }
                }
                // all three together: empty, and cut at the same fraction
                check_state(rep, args, &b, seg, &[(0, 0), (1, 0), (2, 0)], "empty").await;
                for frac in [0.1f64, 0.5, 0.9] {
                    let d: Vec<(usize, u64)> = (0..3).map(|k| (k, ((lens[k] as f64 * frac) as u64).max(1))).collect();
                    check_state(rep, args, &b, seg, &d, "truncated").await;
                }
            }
            if rep.want_sample() {
                rep.sample(json!({"case_seed": seed, "store": b.cfg.to_json(), "sealed_segments": sealed.len(), "events": b.model.total_events(),
                                  "states": "per sealed segment and file kind: empty, prefix lengths (1..40, structural boundaries +-1, every 64th byte, len-1), complete; all three files together empty / cut at 10%,50%,90%"}));
            }
            let _ = std::fs::remove_dir_all(&b.dir);
            if rep.violations.len() > 30 {
                break;
            }
        }
    });
}
