//! Event log + pause controller fed by the cfg-gated hook points in seglog and
//! sierradb. Histories are recorded at the public API boundary by the engines;
//! hooks only add fsync / writer-thread observability and pause windows.

use std::collections::HashMap;
use std::sync::atomic::{AtomicU64, Ordering};
use std::sync::{Condvar, Mutex, OnceLock};
use std::time::Duration;

#[derive(Clone, Debug)]
pub struct Ev {
    pub seq: u64,
    pub thread: u64,
    pub name: &'static str,
    pub args: Vec<u64>,
}

pub struct Hub {
    pub log: Mutex<Vec<Ev>>,
    seq: AtomicU64,
    pauses: Mutex<HashMap<&'static str, Pause>>,
    cv: Condvar,
    pub recording: std::sync::atomic::AtomicBool,
}

#[derive(Default, Clone, Debug)]
struct Pause {
    armed: bool,
    /// only pause when args[0] == filter (e.g. bucket id)
    filter: Option<u64>,
    holding: u32,
    hits: u64,
    release: bool,
    timeouts: u64,
}

static HUB: OnceLock<Hub> = OnceLock::new();
static NEXT_THREAD: AtomicU64 = AtomicU64::new(1);
thread_local! {
    static THREAD_ID: u64 = NEXT_THREAD.fetch_add(1, Ordering::Relaxed);
    // (bucket, segment) while inside WriterSet::sync on this thread
    static SYNC_CTX: std::cell::Cell<Option<(u64, u64)>> = const { std::cell::Cell::new(None) };
}

pub fn hub() -> &'static Hub {
    HUB.get_or_init(|| Hub {
        log: Mutex::new(Vec::new()),
        seq: AtomicU64::new(1),
        pauses: Mutex::new(HashMap::new()),
        cv: Condvar::new(),
        recording: std::sync::atomic::AtomicBool::new(true),
    })
}

/// Number of seglog.synced hook events seen by this process (cross-checked against strace in the thorough tier).
pub static SYNCED_EVENTS: std::sync::atomic::AtomicU64 = std::sync::atomic::AtomicU64::new(0);

pub fn install() {
    let _ = hub();
    sierradb::verif::install(Box::new(|name, args| on_point(name, args)));
    seglog::verif::install(Box::new(|name, args| on_point(name, args)));
}

/// Global logical clock shared by hook events and client-boundary events.
pub fn tick() -> u64 {
    hub().seq.fetch_add(1, Ordering::SeqCst)
}

pub fn on_point(name: &'static str, args: &[u64]) {
    let h = hub();
    let mut name = name;
    let mut args = args.to_vec();
    match name {
        "ws.sync.begin" => SYNC_CTX.with(|c| c.set(Some((args[0], args[1])))),
        "ws.sync.end" => SYNC_CTX.with(|c| c.set(None)),
        "seglog.synced" => {
            SYNCED_EVENTS.fetch_add(1, Ordering::Relaxed);
            // attribute the fsync to the bucket/segment being synced on this thread
            if let Some((b, s)) = SYNC_CTX.with(|c| c.get()) {
                name = "fsync";
                args = vec![b, s, args[0]];
            }
        }
        _ => {}
    }
    if h.recording.load(Ordering::Relaxed) {
        let seq = tick();
        let thread = THREAD_ID.with(|t| *t);
        h.log.lock().unwrap().push(Ev { seq, thread, name, args: args.clone() });
    }
    // pause?
    let mut p = h.pauses.lock().unwrap();
    let Some(ps) = p.get_mut(name) else { return };
    if !ps.armed || ps.filter.map(|f| args.first() != Some(&f)).unwrap_or(false) {
        return;
    }
    ps.hits += 1;
    ps.holding += 1;
    ps.release = false;
    h.cv.notify_all();
    let deadline = std::time::Instant::now() + Duration::from_secs(20);
    loop {
        let ps = p.get_mut(name).unwrap();
        if ps.release || !ps.armed {
            ps.holding -= 1;
            break;
        }
        let now = std::time::Instant::now();
        if now >= deadline {
            ps.timeouts += 1;
            ps.holding -= 1;
            break;
        }
        let (g, _) = h.cv.wait_timeout(p, deadline - now).unwrap();
        p = g;
    }
    h.cv.notify_all();
}

/// Arm a pause point: the next thread reaching it (with matching first arg) blocks until `release`.
pub fn arm(name: &'static str, filter: Option<u64>) {
    let h = hub();
    let mut p = h.pauses.lock().unwrap();
    let e = p.entry(name).or_default();
    e.armed = true;
    e.filter = filter;
    e.release = false;
}

/// Wait (bounded) until some thread is held at `name`. Returns false on timeout.
pub fn wait_held(name: &'static str, timeout: Duration) -> bool {
    let h = hub();
    let deadline = std::time::Instant::now() + timeout;
    let mut p = h.pauses.lock().unwrap();
    loop {
        if p.get(name).map(|x| x.holding > 0).unwrap_or(false) {
            return true;
        }
        let now = std::time::Instant::now();
        if now >= deadline {
            return false;
        }
        let (g, _) = h.cv.wait_timeout(p, (deadline - now).min(Duration::from_millis(50))).unwrap();
        p = g;
    }
}

pub fn is_held(name: &'static str) -> bool {
    hub().pauses.lock().unwrap().get(name).map(|x| x.holding > 0).unwrap_or(false)
}

/// Release the thread held at `name` and disarm the point.
pub fn release(name: &'static str) {
    let h = hub();
    let mut p = h.pauses.lock().unwrap();
    if let Some(e) = p.get_mut(name) {
        e.release = true;
        e.armed = false;
    }
    h.cv.notify_all();
}

/// Release the held thread but keep the point armed for the next arrival.
pub fn step(name: &'static str) {
    let h = hub();
    let mut p = h.pauses.lock().unwrap();
    if let Some(e) = p.get_mut(name) {
        e.release = true;
    }
    h.cv.notify_all();
}

pub fn disarm_all() {
    let h = hub();
    let mut p = h.pauses.lock().unwrap();
    for e in p.values_mut() {
        e.armed = false;
        e.release = true;
    }
    h.cv.notify_all();
}

pub fn hits(name: &'static str) -> u64 {
    hub().pauses.lock().unwrap().get(name).map(|x| x.hits).unwrap_or(0)
}

pub fn pause_timeouts() -> u64 {
    hub().pauses.lock().unwrap().values().map(|x| x.timeouts).sum()
}

pub fn clear_log() {
    hub().log.lock().unwrap().clear();
}

pub fn snapshot_log() -> Vec<Ev> {
    hub().log.lock().unwrap().clone()
}

pub fn log_len() -> usize {
    hub().log.lock().unwrap().len()
}

pub fn set_recording(on: bool) {
    hub().recording.store(on, Ordering::Relaxed);
}
