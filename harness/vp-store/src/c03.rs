//! C03 Stream and partition scans are exact, ordered and gapless.
//!
//! One generated history of accepted appends is laid out three ways (one large
//! open segment; 128 KiB segments = many sealed + open; the latter after reopen)
//! and queried with a matrix start x direction x consumption mode. Oracle: the
//! reference model's lists. The reverse rule is taken literally from the property
//! statement: same *set* of events at or before the start, every group inside one
//! transaction, groups in decreasing order (a group may repeat its own events).

use std::collections::BTreeSet;

use sierradb::IterDirection;
use sierradb::bucket::segment::EventRecord;
use sierradb::database::Database;
use vpc::model::{MEvent, MTxn, Model, Pid};
use vpc::{Args, Report, Rng, json};

use crate::store::*;

#[derive(Clone, Copy, Debug, PartialEq, Eq, Hash)]
enum Layout {
    OneLargeSegment,
    SmallSegments,
    SmallSegmentsReopened,
}

fn gen_history(rng: &mut Rng, cfg: &StoreCfg, n: usize, sparse: bool) -> (Vec<MTxn>, Model, Gen) {
    let mut model = Model::new(cfg.buckets);
    let mut g = Gen::new(rng, cfg, 2, 2);
    if sparse {
        // hundreds of partitions, only a handful of them ever written
        let mut keep = Vec::new();
        for _ in 0..(3 + rng.usize_below(3)) {
            keep.push(g.keys[rng.usize_below(g.keys.len())]);
        }
        g.keys = keep;
    }
    let mut txns = Vec::new();
    let opts = GenOpts { wrong_pct: 0, max_events: 6, big_payload_pct: 0, max_payload: 0, key_conflict_pct: 0 };
    while txns.len() < n {
        let mut t = g.txn(rng, &model, &opts);
        // record sizes straddling the 2 KiB / 4 KiB reader buffers and the 64 KiB cache block
        for e in t.events.iter_mut() {
            let sz = match rng.below(20) {
                0..=9 => rng.usize_below(300),
                10..=12 => 1850 + rng.usize_below(300),
                13..=15 => 3900 + rng.usize_below(300),
                16..=17 => 8000 + rng.usize_below(9000),
                _ => 20_000 + rng.usize_below(30_000),
            };
            let tag = e.payload.get(..8).map(|x| x.to_vec()).unwrap_or_default();
            let mut p = rng.bytes(sz);
            for (i, b) in tag.iter().enumerate() {
                if i < p.len() {
                    p[i] = *b;
                }
            }
            e.payload = p;
        }
        if model.apply(&t).is_ok() {
            txns.push(t);
        }
    }
    (txns, model, g)
}

fn pos_of(e: &EventRecord, stream_scan: bool) -> u64 {
    if stream_scan { e.stream_version } else { e.partition_sequence }
}
fn mpos(e: &MEvent, stream_scan: bool) -> u64 {
    if stream_scan { e.version } else { e.seq }
}

struct Q<'a> {
    what: String, // "partition 3" / "stream st-1-0"
    stream_scan: bool,
    all: Vec<&'a MEvent>,
}

fn check_reverse(groups: &[Vec<EventRecord>], want: &[&MEvent], stream_scan: bool) -> Option<(String, String)> {
    // (1) same set of distinct events
    let got_ids: BTreeSet<u128> = groups.iter().flatten().map(|e| e.event_id.as_u128()).collect();
    let want_ids: BTreeSet<u128> = want.iter().map(|e| e.event_id).collect();
    if let Some(m) = want_ids.difference(&got_ids).next() {
        let e = want.iter().find(|e| e.event_id == *m).unwrap();
        return Some(("missing".into(), format!("reverse scan never returned position {} (seq {} version {} stream {}); {} of {} distinct events returned", mpos(e, stream_scan), e.seq, e.version, e.stream, got_ids.intersection(&want_ids).count(), want_ids.len())));
    }
    if let Some(x) = got_ids.difference(&want_ids).next() {
        let e = groups.iter().flatten().find(|e| e.event_id.as_u128() == *x).unwrap();
        return Some(("extra".into(), format!("reverse scan returned an event outside the range: position {} (seq {} version {} stream {})", pos_of(e, stream_scan), e.partition_sequence, e.stream_version, &*e.stream_id)));
    }
    // (2) content, (3) each group inside one transaction, (4) groups in decreasing order
    let mut last_max: Option<u64> = None;
    for g in groups {
        if g.is_empty() {
            return Some(("empty-group".into(), "reverse scan returned an empty group".into()));
        }
        let t0 = g[0].transaction_id;
        for r in g {
            let m = want.iter().find(|e| e.event_id == r.event_id.as_u128()).unwrap();
            if let Some(d) = diff_event(r, m, false) {
                return Some(("wrong-content".into(), d));
            }
            if r.transaction_id != t0 {
                return Some(("group-mixes-transactions".into(), format!("a group holds events of transactions {} and {}", t0, r.transaction_id)));
            }
        }
        let mx = g.iter().map(|e| pos_of(e, stream_scan)).max().unwrap();
        if let Some(l) = last_max {
            if mx > l {
                return Some(("groups-not-decreasing".into(), format!("group with max position {mx} follows a group with max position {l}")));
            }
        }
        last_max = Some(mx);
    }
    None
}

async fn run_queries(rep: &mut Report, db: &Database, model: &Model, layout: Layout, rng: &mut Rng, case: &vpc::Value, full: bool) {
    // build query subjects
    let mut subjects: Vec<Q<'_>> = Vec::new();
    for (pid, evs) in &model.partitions {
        subjects.push(Q { what: format!("partition {pid}"), stream_scan: false, all: evs.iter().collect() });
    }
    for ((_, s), st) in &model.streams {
        let pid = st.events[0].0;
        subjects.push(Q { what: format!("stream {s}@{pid}"), stream_scan: true, all: model.stream_events(pid, s) });
    }
    let modes = [Consume::Next, Consume::Batch(1), Consume::Batch(2), Consume::Batch(3), Consume::Batch(7), Consume::Batch(50), Consume::Batch(1000)];
    for q in &subjects {
        let n = q.all.len() as u64;
        if n == 0 {
            continue;
        }
        let last = n - 1;
        // starts: 0, first/middle/last event of a multi-event transaction, last, last+1, last+1000, MAX
        let mut starts: Vec<(u64, bool)> = vec![(0, false), (last, false), (last + 1, false), (last + 1000, false), (u64::MAX, false)];
        let multi: Vec<usize> = (0..q.all.len()).filter(|i| model.txns[q.all[*i].txn_index].txn.events.len() > 1).collect();
        if !multi.is_empty() {
            let i = *rng.pick(&multi);
            let ti = q.all[i].txn_index;
            let members: Vec<u64> = q.all.iter().filter(|e| e.txn_index == ti).map(|e| mpos(e, q.stream_scan)).collect();
            starts.push((members[0], true));
            starts.push((members[members.len() / 2], true));
            starts.push((*members.last().unwrap(), true));
        }
        starts.push((rng.below(n), false));
        let (pid, stream) = if q.stream_scan {
            let (s, p) = q.what.strip_prefix("stream ").unwrap().split_once('@').unwrap();
            (p.parse::<Pid>().unwrap(), Some(s.to_string()))
        } else {
            (q.what.strip_prefix("partition ").unwrap().parse::<Pid>().unwrap(), None)
        };
        for (start, inside_multi) in starts {
            for dir in [IterDirection::Forward, IterDirection::Reverse] {
                let fwd = matches!(dir, IterDirection::Forward);
                let mode_list: Vec<Consume> = if full { modes.to_vec() } else { vec![*rng.pick(&modes), *rng.pick(&modes)] };
                for how in mode_list {
                    rep.evaluations += 1;
                    let res = match &stream {
                        Some(s) => scan_stream(db, pid, s, start, dir, how).await,
                        None => scan_partition(db, pid, start, dir, how).await,
                    };
                    let want: Vec<&MEvent> = if fwd {
                        q.all.iter().filter(|e| mpos(e, q.stream_scan) >= start).copied().collect()
                    } else {
                        q.all.iter().filter(|e| mpos(e, q.stream_scan) <= start).copied().collect()
                    };
                    let kind = if q.stream_scan { "stream" } else { "partition" };
                    let dname = if fwd { "forward" } else { "reverse" };
                    let startk = if start == u64::MAX { "max" } else if start > last { "beyond-end" } else if inside_multi { "inside-multi-event-txn" } else if start == 0 { "zero" } else { "middle" };
                    let witness = json!({"case": case, "layout": format!("{layout:?}"), "subject": q.what, "start": start, "dir": dname, "consume": format!("{how:?}")});
                    match res {
                        Err(e) => rep.violation(&format!("C03:{kind}:{dname}:error:{startk}"), format!("{} {dname} from {start} ({how:?}, {layout:?}) failed: {e}", q.what), witness),
                        Ok(groups) => {
                            let bad = if fwd { diff_forward(&groups, &want) } else { check_reverse(&groups, &want, q.stream_scan) };
                            if bad.is_some() && std::env::var_os("VP_DEBUG").is_some() {
                                eprintln!("DEBUG {} {dname} from {start} {how:?} {layout:?}\n  want {:?}\n  got {:?}", q.what,
                                    want.iter().map(|e| (mpos(e, q.stream_scan), e.txn_index)).collect::<Vec<_>>(),
                                    groups.iter().map(|g| g.iter().map(|e| (pos_of(e, q.stream_scan), e.offset)).collect::<Vec<_>>()).collect::<Vec<_>>());
                            }
                            if let Some((class, what)) = bad {
                                rep.violation(&format!("C03:{kind}:{dname}:{class}:{startk}"), format!("{} {dname} from {start} ({how:?}, {layout:?}): {what}", q.what), witness);
                            } else if fwd {
                                // forward groups never mix transactions and are in increasing order (gapless by equality with the model)
                                for g in &groups {
                                    if g.iter().any(|e| e.transaction_id != g[0].transaction_id) {
                                        rep.violation(&format!("C03:{kind}:forward:group-mixes-transactions:{startk}"), format!("{} forward from {start}: a group mixes transactions", q.what), witness.clone());
                                    }
                                }
                            }
                            // non-trivial: range spans >= 2 segments (small-segment layouts with enough data) or starts inside a multi-event txn
                            let bytes: usize = want.iter().map(|e| e.payload.len() + 120).sum();
                            if inside_multi || (layout != Layout::OneLargeSegment && bytes > 140_000) {
                                rep.nontrivial(&(case["case_seed"].as_u64(), format!("{layout:?}"), &q.what, start, fwd, format!("{how:?}")));
                            }
                        }
                    }
                }
            }
        }
        if rep.violations.len() > 12 {
            return;
        }
    }
}

async fn run_case(rep: &mut Report, args: &Args, case_seed: u64, full: bool) {
    let mut rng = Rng::new(case_seed);
    let buckets = *rng.pick(&[1u16, 2]);
    let sparse = rng.chance(1, 4);
    let base = StoreCfg {
        segment_size: 128 * 1024,
        buckets,
        writer_threads: 1,
        reader_threads: 2,
        partitions: if sparse { buckets * (200 + rng.below(300) as u16) } else { buckets * (1 + rng.below(3) as u16) },
        compression: rng.chance(1, 2),
        sync_interval_ms: 1,
        sync_idle_ms: 5,
        max_batch: 50,
        min_sync_bytes: 4096,
    };
    let n_txns = 50 + rng.usize_below(70);
    let (txns, model, _g) = gen_history(&mut rng, &base, n_txns, sparse);
    let case = json!({"case_seed": case_seed, "store": base.to_json(), "transactions": txns.len(), "events": model.total_events()});
    for layout in [Layout::OneLargeSegment, Layout::SmallSegments, Layout::SmallSegmentsReopened] {
        if !opens_left() {
            rep.note("per-process open budget reached");
            return;
        }
        let mut cfg = base.clone();
        if layout == Layout::OneLargeSegment {
            cfg.segment_size = 16 * 1024 * 1024;
        }
        let dir = fresh_dir(&args.work, &format!("c03-{}-{case_seed}-{layout:?}", args.shard));
        let mut db = match cfg.open(&dir) {
            Ok(d) => d,
            Err(e) => {
                rep.inconclusive(format!("open failed: {e}"));
                return;
            }
        };
        let mut ok = true;
        for t in &txns {
            match db.append_events(to_store_txn(t).unwrap()).await {
                Ok(_) => {}
                Err(e) => {
                    // acceptance is C02's business; without the history this layout cannot be judged
                    rep.note(format!("history append refused ({e}); layout skipped"));
                    ok = false;
                    break;
                }
            }
        }
        if ok && layout == Layout::SmallSegmentsReopened {
            db.shutdown().await;
            drop(db);
            db = match cfg.open(&dir) {
                Ok(d) => d,
                Err(e) => {
                    rep.violation("C03:reopen-failed", format!("reopen after clean shutdown failed: {e}"), case.clone());
                    let _ = std::fs::remove_dir_all(&dir);
                    return;
                }
            };
        }
        if ok {
            let mut qrng = Rng::new(case_seed ^ 0x77); // same queries in every layout
            run_queries(rep, &db, &model, layout, &mut qrng, &case, full).await;
            rep.count("layouts_queried", 1);
            // partitions and streams that were never written must be empty in every layout (sealed-segment
            // indexes are minimal perfect hashes: a lookup of an absent key has to be recognised as absent)
            let mut absent = 0u64;
            for pid in 0..base.partitions {
                if model.partitions.get(&pid).map(|v| !v.is_empty()).unwrap_or(false) { continue; }
                absent += 1;
                rep.evaluations += 1;
                let witness = json!({"case": case, "layout": format!("{layout:?}"), "subject": format!("absent partition {pid}")});
                match scan_partition(&db, pid, 0, IterDirection::Forward, Consume::Batch(50)).await {
                    Ok(g) if g.iter().all(|x| x.is_empty()) => {}
                    Ok(g) => rep.violation("C03:partition:forward:extra:never-written-partition", format!("partition {pid} was never written but its scan returns {} events ({layout:?})", g.iter().map(|x| x.len()).sum::<usize>()), witness.clone()),
                    Err(e) => rep.violation("C03:partition:forward:error:never-written-partition", format!("scan of the never-written partition {pid} failed ({layout:?}): {e}"), witness.clone()),
                }
                match db.get_partition_sequence(pid).await {
                    Ok(None) => {}
                    Ok(Some(x)) => rep.violation("C03:get_partition_sequence:extra:never-written-partition", format!("partition {pid} was never written but get_partition_sequence reports {} ({layout:?})", x.sequence), witness),
                    Err(e) => rep.violation("C03:get_partition_sequence:error:never-written-partition", format!("get_partition_sequence of the never-written partition {pid} failed ({layout:?}): {e}"), witness),
                }
            }
            rep.count("never_written_partitions_probed", absent);
            if let Some((pid, _)) = model.partitions.iter().next() {
                for i in 0..100u32 {
                    let name = format!("never-written-{i}-{}", case_seed % 1000);
                    rep.evaluations += 1;
                    match scan_stream(&db, *pid, &name, 0, IterDirection::Forward, Consume::Batch(50)).await {
                        Ok(g) if g.iter().all(|x| x.is_empty()) => {}
                        Ok(g) => rep.violation("C03:stream:forward:extra:never-written-stream", format!("stream {name} was never written but its scan returns {} events ({layout:?})", g.iter().map(|x| x.len()).sum::<usize>()), json!({"case": case, "layout": format!("{layout:?}"), "subject": name})),
                        Err(e) => rep.violation("C03:stream:forward:error:never-written-stream", format!("scan of the never-written stream {name} failed ({layout:?}): {e}"), json!({"case": case, "layout": format!("{layout:?}"), "subject": name})),
                    }
                }
                rep.count("never_written_streams_probed", 100);
            }
        }
        db.shutdown().await;
        drop(db);
        let _ = std::fs::remove_dir_all(&dir);
    }
    if rep.want_sample() {
        rep.sample(json!({"case": case, "first_txn": txn_json(&txns[0]), "queries": "every partition and stream x starts {0,last,last+1,last+1000,MAX,first/middle/last of a multi-event txn,random} x {forward,reverse} x consumption {next, next_batch(1,2,3,7,50,1000)}"}));
    }
}

pub fn run(args: &Args, rep: &mut Report) {
    let rt = runtime(3);
    if let Some(w) = args.load_replay() {
        let cs = w["witness"]["case"]["case_seed"].as_u64().unwrap();
        rt.block_on(run_case(rep, args, cs, true));
        return;
    }
    let thorough = args.tier.is_thorough();
    let mut case = 0u64;
    while args.time_left() && opens_left() {
        case += 1;
        rt.block_on(run_case(rep, args, args.case_seed(case), thorough));
        if rep.violations.len() > 12 {
            break;
        }
    }
    rep.count("histories", case);
}
