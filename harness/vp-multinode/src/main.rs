//! vp-multinode: real `sierradb` server processes forming a replicated cluster on
//! loopback (explicit dial hook, mDNS off), RESP clients, a seeded nemesis
//! (kill -9 + restart with the same directory, SIGSTOP/SIGCONT, coordinator delay
//! between local append and replication), and an offline checker over the nodes'
//! on-disk logs (C10 C11).

mod resp;

#[allow(dead_code)]
#[path = "../../vp-store/src/store.rs"]
mod store;

use std::collections::{BTreeMap, BTreeSet};
use std::net::TcpListener;
use std::path::{Path, PathBuf};
use std::process::{Child, Command, Stdio};
use std::sync::atomic::{AtomicBool, AtomicU64, Ordering};
use std::sync::{Arc, Mutex};
use std::time::{Duration, Instant};

use resp::{Conn, V};
use sierradb::IterDirection;
use sierradb::database::DatabaseBuilder;
use vpc::{Args, Report, Rng, json};

const BUCKETS: u16 = 4;
const SEGMENT: usize = 256 * 1024;

struct Node {
    idx: usize,
    dir: PathBuf,
    client_port: u16,
    cluster_port: u16,
    child: Option<Child>,
    stopped: bool, // SIGSTOPped
    restarts: u64,
    started_at: u64,
}

struct Cluster {
    server: String,
    root: PathBuf,
    n: usize,
    rf: u8,
    partitions: u16,
    nodes: Vec<Node>,
    delay_ms: u64,
    confirm_delay_ms: u64,
    port_lock: PathBuf,
    start_counter: u64,
}

/// Ports for one cluster: a block of 12 between vp-resp's range and the kernel's ephemeral range, reserved across
/// processes with a lock file for as long as the cluster lives.  (Ports taken from the ephemeral range were stolen:
/// while the nemesis had a node down, another shard's new cluster was handed that node's port, and the first
/// cluster's clients were then acknowledged by the other cluster.)
fn reserve_ports(salt: u64) -> (u16, PathBuf) {
    let dir = std::env::temp_dir().join("vp-multinode-ports");
    let _ = std::fs::create_dir_all(&dir);
    let mut x = salt ^ std::process::id() as u64;
    for _ in 0..2000 {
        let idx = vpc::splitmix(&mut x) % 100;
        let base = 30_100 + (idx as u16) * 24;
        let lock = dir.join(format!("{base}.lock"));
        if let Ok(md) = std::fs::metadata(&lock) {
            if md.modified().ok().and_then(|m| m.elapsed().ok()).map(|e| e > Duration::from_secs(3 * 3600)).unwrap_or(false) {
                let _ = std::fs::remove_file(&lock);
            }
        }
        if std::fs::OpenOptions::new().write(true).create_new(true).open(&lock).is_err() {
            continue;
        }
        if (0..12).all(|k| TcpListener::bind(("127.0.0.1", base + k)).is_ok()) {
            return (base, lock);
        }
        let _ = std::fs::remove_file(&lock);
    }
    panic!("no free port block");
}

impl Cluster {
    fn new(server: &str, root: &Path, n: usize, rf: u8, partitions: u16, delay_ms: u64) -> Cluster {
        let (base, port_lock) = reserve_ports(root.to_string_lossy().bytes().fold(7u64, |a, b| a.wrapping_mul(131) ^ b as u64));
        let ports: Vec<u16> = (0..2 * n as u16).map(|k| base + k).collect();
        let nodes = (0..n).map(|i| Node { idx: i, dir: root.join(format!("node{i}")), client_port: ports[2 * i], cluster_port: ports[2 * i + 1], child: None, stopped: false, restarts: 0, started_at: 0 }).collect();
        Cluster { server: server.to_string(), root: root.to_path_buf(), n, rf, partitions, nodes, delay_ms, confirm_delay_ms: 0, port_lock, start_counter: 0 }
    }
    fn config_path(&self, i: usize) -> PathBuf { self.root.join(format!("node{i}.toml")) }
    fn write_config(&self, i: usize) {
        let nd = &self.nodes[i];
        let cfg = format!(
            "dir = \"{}\"\n[append]\nstrict_versioning = false\n[bucket]\ncount = {BUCKETS}\n[partition]\ncount = {}\n[replication]\nfactor = {}\nbuffer_size = 200\nbuffer_timeout_ms = 2000\ncatchup_timeout_ms = 500\n[segment]\nsize_bytes = {SEGMENT}\ncompression = false\n[sync]\ninterval_ms = 2\nmax_batch_size = 50\nmin_bytes = 1\n[heartbeat]\ninterval_ms = 300\ntimeout_ms = 1500\n[network]\ncluster_enabled = true\ncluster_address = \"/ip4/127.0.0.1/tcp/{}\"\nclient_address = \"127.0.0.1:{}\"\nmdns = false\n[node]\ncount = {}\nindex = {}\n[cache]\ncapacity_bytes = 8388608\n[threads]\nread = 2\nwrite = 2\n",
            nd.dir.join("data").display(), self.partitions, self.rf, nd.cluster_port, nd.client_port, self.n, i
        );
        std::fs::write(self.config_path(i), cfg).unwrap();
    }
    fn start(&mut self, i: usize) -> Result<(), String> {
        std::fs::create_dir_all(self.nodes[i].dir.join("data")).unwrap();
        self.write_config(i);
        let dial: Vec<String> = self.nodes.iter().filter(|o| o.idx != i).map(|o| format!("/ip4/127.0.0.1/tcp/{}", o.cluster_port)).collect();
        let log = std::fs::OpenOptions::new().create(true).append(true).open(self.nodes[i].dir.join("server.log")).unwrap();
        let mut cmd = Command::new(&self.server);
        cmd.arg("--config").arg(self.config_path(i)).arg("--log").arg(std::env::var("VP_SERVER_LOG").unwrap_or_else(|_| "sierradb_cluster=WARN,sierradb_server=WARN,sierradb=WARN,WARN".into()))
            .env("SIERRA_VERIF_DIAL", dial.join(","))
            .env("SIERRA_VERIF_EVENTLOG", self.nodes[i].dir.join("events.log"))
            .env("RUST_BACKTRACE", "0")
            .stdin(Stdio::null()).stdout(Stdio::from(log.try_clone().unwrap())).stderr(Stdio::from(log));
        let mut delays = Vec::new();
        if self.delay_ms > 0 { delays.push(format!("coord.after_local_append={}", self.delay_ms)); }
        if self.confirm_delay_ms > 0 { delays.push(format!("coord.before_confirm={}", self.confirm_delay_ms)); }
        if !delays.is_empty() { cmd.env("SIERRA_VERIF_DELAYS", delays.join(",")); }
        let child = cmd.spawn().map_err(|e| format!("spawn server: {e}"))?;
        self.start_counter += 1;
        self.nodes[i].started_at = self.start_counter;
        self.nodes[i].child = Some(child);
        self.nodes[i].stopped = false;
        Ok(())
    }
    fn addr(&self, i: usize) -> String { format!("127.0.0.1:{}", self.nodes[i].client_port) }
    fn signal(&mut self, i: usize, sig: i32) {
        if let Some(c) = &self.nodes[i].child { unsafe { libc::kill(c.id() as i32, sig); } }
    }
    fn kill9(&mut self, i: usize) {
        if let Some(mut c) = self.nodes[i].child.take() { let _ = c.kill(); let _ = c.wait(); }
        self.nodes[i].stopped = false;
    }
    fn kill_all(&mut self) { for i in 0..self.n { self.signal(i, libc::SIGCONT); self.kill9(i); } }
    fn alive(&mut self, i: usize) -> bool {
        match &mut self.nodes[i].child { Some(c) => matches!(c.try_wait(), Ok(None)), None => false }
    }
    fn ping(&self, i: usize) -> bool {
        Conn::connect(&self.addr(i), Duration::from_millis(500)).and_then(|mut c| c.cmd(&[b"PING"])).map(|v| matches!(v, V::Str(_) | V::Bulk(_))).unwrap_or(false)
    }
}

impl Drop for Cluster {
    fn drop(&mut self) { self.kill_all(); let _ = std::fs::remove_file(&self.port_lock); }
}

#[derive(Clone, Debug)]
struct Op {
    client: usize,
    node: usize,
    stream: String,
    event_ids: Vec<u128>,
    inv: u64,
    ret: u64,
    /// Ok(partition, first sequence) | Err(text) | indeterminate (timeout / connection lost)
    ok: Option<(u16, u64)>,
    err: Option<String>,
}

fn uuid_str(x: u128) -> String { uuid::Uuid::from_u128(x).to_string() }

/// Keys: stream -> (partition key, partition id). Hot partitions: a few streams each.
fn make_streams(rng: &mut Rng, partitions: u16, hot: usize) -> Vec<(String, u128, u16)> {
    let keys = store::make_keys(rng, partitions, 1);
    let mut v = Vec::new();
    for (pk, pid) in keys.iter().take(hot) {
        for k in 0..2 { v.push((format!("mn-{pid}-{k}"), *pk, *pid)); }
    }
    v
}

#[derive(Clone, Debug)]
struct LogEvent { seq: u64, event_id: u128, txn_id: u128, count: u8, stream: String }

/// Open a copy of a node's data directory with the library and dump every partition's committed log.
fn dump_node(rt: &tokio::runtime::Runtime, dir: &Path, partitions: u16, scratch: &Path) -> Result<BTreeMap<u16, Vec<LogEvent>>, String> {
    let _ = std::fs::remove_dir_all(scratch);
    copy_dir(&dir.join("data"), scratch);
    let db = DatabaseBuilder::new().segment_size_bytes(SEGMENT).total_buckets(BUCKETS).bucket_ids_from_range(0..BUCKETS).writer_threads(1).reader_threads(2).compression(false).open(scratch).map_err(|e| format!("open node copy: {e}"))?;
    let mut out = BTreeMap::new();
    rt.block_on(async {
        for p in 0..partitions {
            let groups = store::scan_partition(&db, p, 0, IterDirection::Forward, store::Consume::Batch(100)).await?;
            out.insert(p, groups.into_iter().flatten().map(|e| LogEvent { seq: e.partition_sequence, event_id: e.event_id.as_u128(), txn_id: e.transaction_id.as_u128(), count: e.confirmation_count, stream: e.stream_id.to_string() }).collect::<Vec<_>>());
        }
        db.shutdown().await;
        Ok::<(), String>(())
    })?;
    let _ = std::fs::remove_dir_all(scratch);
    Ok(out)
}

fn copy_dir(src: &Path, dst: &Path) {
    std::fs::create_dir_all(dst).unwrap();
    if let Ok(rd) = std::fs::read_dir(src) {
        for e in rd.flatten() {
            let to = dst.join(e.file_name());
            if e.file_type().map(|t| t.is_dir()).unwrap_or(false) { copy_dir(&e.path(), &to); } else { let _ = std::fs::copy(e.path(), &to); }
        }
    }
}

fn read_events(dir: &Path) -> Vec<(String, Vec<u64>)> {
    std::fs::read_to_string(dir.join("events.log")).unwrap_or_default().lines().filter_map(|l| {
        let mut it = l.split_whitespace();
        let name = it.next()?.to_string();
        Some((name, it.filter_map(|x| x.parse().ok()).collect()))
    }).collect()
}

fn run_once(args: &Args, rep: &mut Report, run_seed: u64, server: &str, first_run: bool) {
    let mut rng = Rng::new(run_seed);
    let thorough = args.tier.is_thorough();
    // 3 nodes / rf 3 mostly; 1 run in 3 has 5 nodes and replicates to all 5 (quorum 3)
    // (rf 3 on 5 nodes is not used: with rf < nodes the server's bucket placement disagrees with the topology's routing
    // - the open C13 finding - and most writes fail for that reason alone)
    let forced_n = args.opts.get("nodes").and_then(|x| x.parse::<usize>().ok());
    // (the first run of every third shard is a 5-node cluster, so that every check run has some)
    let n = forced_n.unwrap_or(if (first_run && args.shard % 3 == 0) || rng.chance(1, 3) { 5 } else { 3 });
    let rf = if n == 5 { 5u8 } else { 3u8 };
    let quorum = rf / 2 + 1;
    let partitions = 16u16;
    let delay_ms = *rng.pick(&[0u64, 0, 20, 80]);
    // delay between reaching quorum and recording the confirmation on the coordinator (hook coord.before_confirm)
    let confirm_delay_ms = *rng.pick(&[0u64, 0, 30, 120]);
    let root = store::fresh_dir(&args.work, &format!("mn-{}-{}-{run_seed}", args.prop, args.shard));
    let mut cl = Cluster::new(server, &root, n, rf, partitions, delay_ms);
    cl.confirm_delay_ms = confirm_delay_ms;
    let prop = args.prop.clone();
    let witness_base = json!({"run_seed": run_seed, "nodes": n, "rf": rf, "partitions": partitions, "coordinator_delay_ms": delay_ms, "confirm_delay_ms": confirm_delay_ms});
    rep.evaluations += 1;
    // ---- formation ---------------------------------------------------------------------------------------
    // Nodes are started one at a time: when several nodes join at once, an OwnershipResponse computed from a
    // partial view can overwrite a third node's view (TopologyManager::handle_ownership_response replaces
    // partition_replicas wholesale) and that node then never routes to itself again.  That start-up race is an
    // availability defect outside C10/C11, so the harness avoids it and, if a cluster still does not accept a
    // probe write through every node, restarts it (up to three attempts) before giving up as inconclusive.
    let streams = make_streams(&mut rng, partitions, 3);
    // probe keys on partitions the workload does not use, a fresh one per probe round: a probe that fails its quorum
    // leaves an unconfirmed event in the coordinator's log, after which that partition accepts nothing more
    let probe_keys: Vec<(u128, u16)> = store::make_keys(&mut rng, partitions, 1).into_iter().filter(|(_, pid)| streams.iter().all(|(_, _, p)| p != pid)).collect();
    let mut probe_round = 0usize;
    let mut formed = false;
    let mut last_probe = String::from("no node answered PING");
    let mut ids = store::Ids { counter: run_seed & 0xFFFF_FFFF };
    'attempt: for attempt in 0..3u64 {
        if attempt > 0 {
            rep.count("formation_retries", 1);
            cl.kill_all();
            for i in 0..n { let _ = std::fs::remove_dir_all(&cl.nodes[i].dir); }
        }
        for i in 0..n {
            if let Err(e) = cl.start(i) { rep.inconclusive(e); return; }
            let t = Instant::now();
            while t.elapsed() < Duration::from_secs(10) && !cl.ping(i) { std::thread::sleep(Duration::from_millis(50)); }
            std::thread::sleep(Duration::from_millis(700 + 500 * attempt));
        }
        // let heartbeats and ownership messages settle before the first write
        std::thread::sleep(Duration::from_millis(1500));
        let t0 = Instant::now();
        while t0.elapsed() < Duration::from_secs(if n > 3 { 30 } else { 15 }) {
            let mut ok = 0;
            let (pk, ppid) = &probe_keys[probe_round % probe_keys.len()];
            let s = &format!("probe-{ppid}");
            probe_round += 1;
            for i in 0..n {
                let id = ids.with_hash(&mut rng, store::hash_of_key(*pk));
                if let Ok(mut c) = Conn::connect(&cl.addr(i), Duration::from_secs(3)) {
                    let r = c.cmd(&[b"EAPPEND", s.as_bytes(), b"Probe", b"EVENT_ID", uuid_str(id).as_bytes(), b"PARTITION_KEY", uuid_str(*pk).as_bytes(), b"EXPECTED_VERSION", b"any", b"PAYLOAD", b"probe"]);
                    if matches!(r, Ok(V::Map(_))) { ok += 1; } else { last_probe = format!("node {i}: {r:?}"); break; }
                } else { break; }
            }
            if ok == n { formed = true; break 'attempt; }
            std::thread::sleep(Duration::from_millis(300));
        }
    }
    if !formed {
        rep.count("clusters_not_formed", 1);
        rep.note(format!("cluster of {n} nodes did not accept a probe write through every node in three start attempts (last probe: {last_probe})"));
        return;
    }
    rep.count("clusters_formed", 1);
    // ---- workload + nemesis ------------------------------------------------------------------------------
    let clock = Arc::new(AtomicU64::new(1));
    let stop = Arc::new(AtomicBool::new(false));
    let ops: Arc<Mutex<Vec<Op>>> = Arc::new(Mutex::new(Vec::new()));
    let addrs: Vec<String> = (0..n).map(|i| cl.addr(i)).collect();
    let n_clients = 4 + rng.usize_below(5);
    let mut hs = Vec::new();
    for ck in 0..n_clients {
        let (clock, stop, ops, addrs, streams) = (clock.clone(), stop.clone(), ops.clone(), addrs.clone(), streams.clone());
        let mut crng = Rng::new(run_seed ^ (ck as u64 * 977 + 11));
        hs.push(std::thread::spawn(move || {
            let mut ids = store::Ids { counter: ((ck as u64 + 1) << 32) | (crng.next_u64() & 0xFFFF) };
            let mut conn: Option<(usize, Conn)> = None;
            while !stop.load(Ordering::Relaxed) {
                let node = match &conn { Some((nd, _)) if crng.chance(9, 10) => *nd, _ => crng.usize_below(addrs.len()) };
                if conn.as_ref().map(|c| c.0 != node).unwrap_or(true) {
                    conn = Conn::connect(&addrs[node], Duration::from_secs(4)).ok().map(|c| (node, c));
                    if conn.is_none() { std::thread::sleep(Duration::from_millis(50)); continue; }
                }
                let (stream, pk, _pid) = crng.pick(&streams).clone();
                // one in five operations is a multi-event transaction over the partition's streams (EMAPPEND)
                let n_ev = if crng.chance(1, 5) { 2 + crng.usize_below(2) } else { 1 };
                let event_ids: Vec<u128> = (0..n_ev).map(|_| ids.with_hash(&mut crng, store::hash_of_key(pk))).collect();
                let inv = clock.fetch_add(1, Ordering::SeqCst);
                let id_strs: Vec<String> = event_ids.iter().map(|x| uuid_str(*x)).collect();
                let pk_str = uuid_str(pk);
                let payload = format!("c{ck}-{inv}");
                let r = if n_ev == 1 {
                    conn.as_mut().unwrap().1.cmd(&[b"EAPPEND", stream.as_bytes(), b"Ev", b"EVENT_ID", id_strs[0].as_bytes(), b"PARTITION_KEY", pk_str.as_bytes(), b"EXPECTED_VERSION", b"any", b"PAYLOAD", payload.as_bytes()])
                } else {
                    let siblings: Vec<&String> = streams.iter().filter(|(_, k, _)| *k == pk).map(|(s, _, _)| s).collect();
                    let mut a: Vec<&[u8]> = vec![b"EMAPPEND", pk_str.as_bytes()];
                    for (k, ids) in id_strs.iter().enumerate() {
                        a.extend_from_slice(&[siblings[k % siblings.len()].as_bytes(), b"Ev", b"EVENT_ID", ids.as_bytes(), b"EXPECTED_VERSION", b"any", b"PAYLOAD", payload.as_bytes()]);
                    }
                    conn.as_mut().unwrap().1.cmd(&a)
                };
                let ret = clock.fetch_add(1, Ordering::SeqCst);
                let mut op = Op { client: ck, node, stream, event_ids, inv, ret, ok: None, err: None };
                match r {
                    Ok(V::Map(m)) => {
                        let v = V::Map(m);
                        let first = v.get("partition_sequence").or_else(|| v.get("first_partition_sequence")).and_then(|x| x.as_i64());
                        match (v.get("partition_id").and_then(|x| x.as_i64()), first) {
                            (Some(p), Some(s)) => op.ok = Some((p as u16, s as u64)),
                            _ => op.err = Some("malformed reply".into()),
                        }
                    }
                    Ok(V::Err(e)) => op.err = Some(e),
                    Ok(other) => op.err = Some(format!("unexpected reply {other:?}")),
                    Err(_) => { conn = None; } // indeterminate: stays open (neither ok nor err)
                }
                ops.lock().unwrap().push(op);
                if crng.chance(1, 8) { std::thread::sleep(Duration::from_millis(crng.below(20))); }
            }
        }));
    }
    let run_ms = if thorough { 25_000 } else { 12_000 };
    let t_run = Instant::now();
    let mut schedule: Vec<String> = Vec::new();
    while t_run.elapsed() < Duration::from_millis(run_ms) {
        std::thread::sleep(Duration::from_millis(400 + rng.below(1200)));
        let victim = rng.usize_below(n);
        if n == 5 && rng.chance(2, 3) {
            // two replicas down at once for longer than the heartbeat time-out: with rf 5 exactly a quorum is left
            let mut second = rng.usize_below(n);
            while second == victim { second = rng.usize_below(n); }
            let mut how = Vec::new();
            for v in [victim, second] {
                if rng.chance(1, 2) { cl.kill9(v); how.push((v, true)); schedule.push(format!("kill9 {v}")); } else { cl.signal(v, libc::SIGSTOP); how.push((v, false)); schedule.push(format!("stop {v}")); }
            }
            std::thread::sleep(Duration::from_millis(3500 + rng.below(1500)));
            for (v, killed) in how {
                if killed { if cl.start(v).is_ok() { cl.nodes[v].restarts += 1; schedule.push(format!("restart {v}")); } } else { cl.signal(v, libc::SIGCONT); schedule.push(format!("cont {v}")); }
            }
            rep.count("nemesis.two_nodes_down", 1);
            continue;
        }
        // the node that has been up longest leads every partition (replicas are ordered by alive_since): pausing it is
        // what produces two coordinators, so half of the pauses aim at it
        let leader = (0..n).filter(|i| cl.nodes[*i].child.is_some() && !cl.nodes[*i].stopped).min_by_key(|i| cl.nodes[*i].started_at).unwrap_or(victim);
        let action = rng.below(10);
        let victim = if (4..8).contains(&action) && rng.chance(1, 2) { leader } else { victim };
        match action {
            0..=3 => {
                // crash: memory lost, disk kept; restart after a while (new alive_since => coordinators change)
                cl.kill9(victim);
                schedule.push(format!("kill9 {victim}"));
                std::thread::sleep(Duration::from_millis(300 + rng.below(1500)));
                if cl.start(victim).is_ok() { cl.nodes[victim].restarts += 1; schedule.push(format!("restart {victim}")); }
                rep.count("nemesis.kill9_restart", 1);
            }
            4..=7 => {
                // pause: the node misses heartbeats, is timed out by the others, and on SIGCONT still believes the old membership
                cl.signal(victim, libc::SIGSTOP);
                schedule.push(format!("stop {victim}"));
                std::thread::sleep(Duration::from_millis(1800 + rng.below(1500)));
                cl.signal(victim, libc::SIGCONT);
                schedule.push(format!("cont {victim}"));
                rep.count("nemesis.pause_resume", 1);
            }
            _ => { schedule.push("idle".into()); }
        }
    }
    // ---- heal ---------------------------------------------------------------------------------------------------
    for i in 0..n { cl.signal(i, libc::SIGCONT); if !cl.alive(i) { let _ = cl.start(i); } }
    std::thread::sleep(Duration::from_millis(2500));
    stop.store(true, Ordering::Relaxed);
    for h in hs { let _ = h.join(); }
    let ops = ops.lock().unwrap().clone();
    let acked: Vec<&Op> = ops.iter().filter(|o| o.ok.is_some()).collect();
    rep.count("client_ops", ops.len() as u64);
    rep.count("client_acks", acked.len() as u64);
    rep.count("client_errors", ops.iter().filter(|o| o.err.is_some()).count() as u64);
    rep.count("client_indeterminate", ops.iter().filter(|o| o.ok.is_none() && o.err.is_none()).count() as u64);
    // wait until every node answers again (bounded), then give replication time to settle
    let t_heal = Instant::now();
    while t_heal.elapsed() < Duration::from_secs(30) && !(0..n).all(|i| cl.ping(i)) { std::thread::sleep(Duration::from_millis(300)); }
    std::thread::sleep(Duration::from_millis(3000));
    // C11 (c): what a read returns once healed.  A lagging replica (catch-up still failing, watermark behind an
    // unconfirmed local event) may answer "not found": that is a liveness matter the property does not state, so
    // it is only counted.  A read that returns the event at another sequence or partition is "replaced".
    let mut misread: Vec<(usize, u128, String)> = Vec::new();
    if prop == "C11" {
        let mut sample: Vec<&Op> = acked.clone();
        rng.shuffle(&mut sample);
        sample.truncate(40);
        for i in 0..n {
            let Ok(mut c) = Conn::connect(&cl.addr(i), Duration::from_secs(5)) else { rep.count("heal.node_unreachable", 1); continue };
            c.set_timeout(Duration::from_secs(12));
            for o in &sample {
                let (p, first) = o.ok.unwrap();
                let k = o.event_ids.len() - 1;
                let id = o.event_ids[k];
                rep.count("egets_after_heal", 1);
                match c.cmd(&[b"EGET", uuid_str(id).as_bytes()]) {
                    Ok(v @ V::Map(_)) => {
                        rep.count("egets_after_heal.found", 1);
                        let got_p = v.get("partition_id").and_then(|x| x.as_i64());
                        let got_s = v.get("partition_sequence").and_then(|x| x.as_i64());
                        if got_p != Some(p as i64) || got_s != Some((first + k as u64) as i64) {
                            misread.push((i, id, format!("acknowledged as partition {p} sequence {}, read back as partition {got_p:?} sequence {got_s:?}", first + k as u64)));
                        }
                    }
                    Ok(V::Null) => rep.count("egets_after_heal.not_found_on_lagging_node", 1),
                    Ok(_) => rep.count("egets_after_heal.error_reply", 1),
                    Err(_) => {
                        rep.count("egets_after_heal.timeout", 1);
                        match Conn::connect(&cl.addr(i), Duration::from_secs(5)) { Ok(nc) => { c = nc; c.set_timeout(Duration::from_secs(12)); } Err(_) => break }
                    }
                }
            }
        }
    }
    // ---- stop everything, then read the disks ------------------------------------------------------------------------
    cl.kill_all();
    let rt = tokio::runtime::Builder::new_multi_thread().worker_threads(2).enable_all().build().unwrap();
    let mut logs: Vec<BTreeMap<u16, Vec<LogEvent>>> = Vec::new();
    for i in 0..n {
        match dump_node(&rt, &cl.nodes[i].dir, partitions, &root.join("scratch")) {
            Ok(l) => logs.push(l),
            Err(e) => {
                rep.violation(&format!("{prop}:node-log-unreadable"), format!("node {i}: {e}"), json!({"run": witness_base, "node": i, "schedule": schedule}));
                return;
            }
        }
    }
    let events: Vec<Vec<(String, Vec<u64>)>> = (0..n).map(|i| read_events(&cl.nodes[i].dir)).collect();
    let coord_changes: BTreeSet<(u64, usize)> = events.iter().enumerate().flat_map(|(i, ev)| ev.iter().filter(|e| e.0 == "coordinated").map(move |e| (e.1[0], i))).collect();
    let partitions_with_two_coordinators = (0..partitions as u64).filter(|p| coord_changes.iter().filter(|(pp, _)| pp == p).count() >= 2).count();
    rep.count("partitions_coordinated_by_more_than_one_node", partitions_with_two_coordinators as u64);
    rep.count("replica_applied_events", events.iter().map(|ev| ev.iter().filter(|e| e.0 == "replica_applied").count() as u64).sum());
    let witness = json!({"run": witness_base, "schedule": schedule, "acks": acked.len()});
    // ---- C10: at most one confirmed transaction per (partition, sequence); confirmed prefixes agree -------------------
    if prop == "C10" {
        for p in 0..partitions {
            let maxlen = logs.iter().map(|l| l[&p].len()).max().unwrap_or(0);
            for s in 0..maxlen {
                let confirmed: Vec<(usize, &LogEvent)> = logs.iter().enumerate().filter_map(|(i, l)| l[&p].get(s).filter(|e| e.count >= quorum).map(|e| (i, e))).collect();
                rep.evaluations += 1;
                if let Some((i0, e0)) = confirmed.first() {
                    for (i, e) in &confirmed[1..] {
                        if (e.txn_id != e0.txn_id || e.event_id != e0.event_id) && std::env::var_os("VP_DEBUG").is_some() {
                            for (k, l) in logs.iter().enumerate() {
                                eprintln!("DEBUG node {k} partition {p} around {s}: {:?}", l[&p].iter().filter(|x| x.seq + 3 >= s as u64 && x.seq <= s as u64 + 3).map(|x| (x.seq, format!("{:x}", x.event_id >> 64), x.count)).collect::<Vec<_>>());
                                for ev in events[k].iter().filter(|ev| (ev.0 == "coordinated" || ev.0 == "replica_applied") && ev.1[0] == p as u64 && ev.1[1] + 2 >= s as u64 && ev.1[1] <= s as u64 + 2) { eprintln!("DEBUG   node {k} {} {:?}", ev.0, &ev.1[..3]); }
                            }
                        }
                        if e.txn_id != e0.txn_id || e.event_id != e0.event_id {
                            rep.violation("C10:two-confirmed-transactions-at-one-sequence", format!("partition {p} sequence {s}: node {i0} holds event {:032x} (count {}), node {i} holds event {:032x} (count {}), both quorum-confirmed", e0.event_id, e0.count, e.event_id, e.count), witness.clone());
                        }
                    }
                }
            }
            // confirmed prefixes of any two replicas agree event for event
            let w: Vec<usize> = logs.iter().map(|l| l[&p].iter().take_while(|e| e.count >= quorum).count()).collect();
            for a in 0..n { for b in (a + 1)..n {
                let m = w[a].min(w[b]);
                for s in 0..m {
                    if logs[a][&p][s].event_id != logs[b][&p][s].event_id {
                        rep.violation("C10:confirmed-prefixes-diverge", format!("partition {p}: nodes {a} and {b} disagree at sequence {s} inside both confirmed prefixes ({} and {})", w[a], w[b]), witness.clone());
                        break;
                    }
                }
            } }
            rep.max("confirmed_prefix_len", *w.iter().max().unwrap_or(&0) as u64);
        }
    }
    // ---- C11: every acknowledged write is on a quorum at its sequence, confirmed on its coordinator, readable ----------
    if prop == "C11" {
        for o in &acked {
            let (p, first) = o.ok.unwrap();
            if o.event_ids.len() > 1 { rep.count("acked_multi_event_transactions", 1); }
            for (k, event_id) in o.event_ids.iter().enumerate() {
                let s = first + k as u64;
                rep.evaluations += 1;
                let holders: Vec<usize> = (0..n).filter(|i| logs[*i][&p].get(s as usize).map(|e| e.event_id == *event_id).unwrap_or(false)).collect();
                if (holders.len() as u8) < quorum {
                    let elsewhere: Vec<(usize, u64)> = (0..n).flat_map(|i| logs[i][&p].iter().filter(|e| e.event_id == *event_id).map(move |e| (i, e.seq))).collect();
                    let what_there: Vec<String> = (0..n).map(|i| logs[i][&p].get(s as usize).map(|e| format!("{:032x}/{}", e.event_id, e.count)).unwrap_or("-".into())).collect();
                    rep.violation("C11:acked-write-not-on-a-quorum", format!("write acknowledged through node {} as partition {p} sequence {s} (event {:032x}, {} of {} in its transaction) is at that sequence on nodes {holders:?} only; found elsewhere at {elsewhere:?}; at that sequence the nodes hold {what_there:?}", o.node, event_id, k + 1, o.event_ids.len()), witness.clone());
                    continue;
                }
                // whoever coordinated it: an acknowledged write carries a quorum count on at least one disk
                let best = (0..n).filter_map(|i| logs[i][&p].get(s as usize).filter(|e| e.event_id == *event_id).map(|e| e.count)).max().unwrap_or(0);
                if best < quorum {
                    rep.violation("C11:acked-write-has-a-quorum-count-on-no-node", format!("write acknowledged through node {} as partition {p} sequence {s} (event {:032x}) is stored on nodes {holders:?} but its highest confirmation count is {best} (< {quorum}): the coordinator answered before recording the confirmation", o.node, event_id), witness.clone());
                    continue;
                }
                // the coordinator (hook H7) carries a quorum count
                let coord = (0..n).find(|i| events[*i].iter().any(|e| e.0 == "coordinated" && e.1[0] == p as u64 && e.1[1] <= s && s <= e.1[2] && logs[*i][&p].get(s as usize).map(|x| (x.txn_id >> 64) as u64 == e.1[3] && x.txn_id as u64 == e.1[4]).unwrap_or(false)));
                match coord {
                    Some(c) => {
                        let e = &logs[c][&p][s as usize];
                        if e.count < quorum {
                            rep.violation("C11:coordinator-lacks-quorum-count", format!("partition {p} sequence {s}: coordinator node {c} stores confirmation count {} (< {quorum}) for an acknowledged write", e.count), witness.clone());
                        }
                        rep.count("acks_matched_to_coordinator", 1);
                    }
                    None => rep.count("acks_without_coordinator_event", 1),
                }
            }
        }
        for (i, id, what) in misread.iter().take(3) {
            rep.violation("C11:acked-write-read-back-at-another-position", format!("EGET {} through node {i}: {what}", uuid_str(*id)), witness.clone());
        }
    }
    let interesting = partitions_with_two_coordinators > 0 && ops.iter().any(|o| o.err.is_some());
    if interesting { rep.nontrivial(&(run_seed, schedule.len())); }
    rep.count(if interesting { "runs_with_coordinator_change_and_failed_writes" } else { "runs_without_coordinator_change" }, 1);
    if rep.want_sample() {
        rep.sample(json!({"run": witness_base, "schedule": schedule, "client_ops": ops.len(), "acks": acked.len(), "first_ops": ops.iter().take(3).map(|o| json!({"client": o.client, "node": o.node, "stream": o.stream, "inv": o.inv, "ret": o.ret, "ok": o.ok, "err": o.err})).collect::<Vec<_>>()}));
    }
    drop(cl);
    if std::env::var_os("VP_KEEP").is_none() {
        let _ = std::fs::remove_dir_all(&root);
    }
}

fn main() {
    let args = Args::parse();
    let mut rep = Report::new(&args.prop);
    vpc::quiet_panics();
    store::raise_fd_limit();
    // the optimised server: a cluster of 3-5 debug-built processes per shard mostly measures the machine
    let Some(server) = args.opts.get("server_release").or(args.opts.get("server_dev")).cloned() else {
        rep.inconclusive("no server binary given (--opt server_release=... or server_dev=...)");
        rep.write(&args);
        return;
    };
    if args.prop != "C10" && args.prop != "C11" {
        rep.inconclusive(format!("vp-multinode does not serve {}", args.prop));
        rep.write(&args);
        return;
    }
    if let Some(w) = args.load_replay() {
        run_once(&args, &mut rep, w["witness"]["run"]["run_seed"].as_u64().unwrap(), &server, false);
    } else {
        let mut k = 0;
        loop {
            k += 1;
            run_once(&args, &mut rep, args.case_seed(k), &server, k == 1);
            if !args.time_left() || rep.violations.len() > 6 { break; }
        }
        rep.count("runs", k);
    }
    rep.write(&args);
    std::process::exit(0);
}
