//! Minimal RESP3 client over std::net (requests = arrays of bulk strings).

use std::io::{BufRead, BufReader, Read, Write};
use std::net::TcpStream;
use std::time::Duration;

#[derive(Clone, Debug, PartialEq)]
pub enum V {
    Str(String),
    Err(String),
    Int(i64),
    Bulk(Vec<u8>),
    Null,
    Arr(Vec<V>),
    Map(Vec<(V, V)>),
    Bool(bool),
    Double(f64),
}

impl V {
    pub fn as_i64(&self) -> Option<i64> {
        match self {
            V::Int(i) => Some(*i),
            V::Str(s) => s.parse().ok(),
            V::Bulk(b) => std::str::from_utf8(b).ok()?.parse().ok(),
            _ => None,
        }
    }
    pub fn as_str(&self) -> Option<String> {
        match self {
            V::Str(s) => Some(s.clone()),
            V::Bulk(b) => String::from_utf8(b.clone()).ok(),
            _ => None,
        }
    }
    pub fn get(&self, key: &str) -> Option<&V> {
        match self {
            V::Map(kv) => kv.iter().find(|(k, _)| k.as_str().as_deref() == Some(key)).map(|(_, v)| v),
            _ => None,
        }
    }
}

pub struct Conn {
    r: BufReader<TcpStream>,
    w: TcpStream,
}

impl Conn {
    pub fn connect(addr: &str, timeout: Duration) -> std::io::Result<Conn> {
        let s = TcpStream::connect_timeout(&addr.parse().unwrap(), timeout)?;
        s.set_read_timeout(Some(timeout))?;
        s.set_write_timeout(Some(timeout))?;
        s.set_nodelay(true)?;
        Ok(Conn { r: BufReader::new(s.try_clone()?), w: s })
    }
    pub fn set_timeout(&self, t: Duration) {
        let _ = self.w.set_read_timeout(Some(t));
    }
    pub fn send(&mut self, args: &[&[u8]]) -> std::io::Result<()> {
        let mut buf = format!("*{}\r\n", args.len()).into_bytes();
        for a in args {
            buf.extend_from_slice(format!("${}\r\n", a.len()).as_bytes());
            buf.extend_from_slice(a);
            buf.extend_from_slice(b"\r\n");
        }
        self.w.write_all(&buf)
    }
    pub fn cmd(&mut self, args: &[&[u8]]) -> std::io::Result<V> {
        self.send(args)?;
        self.read()
    }
    fn line(&mut self) -> std::io::Result<String> {
        let mut s = String::new();
        let n = self.r.read_line(&mut s)?;
        if n == 0 {
            return Err(std::io::Error::new(std::io::ErrorKind::UnexpectedEof, "connection closed"));
        }
        Ok(s.trim_end_matches(['\r', '\n']).to_string())
    }
    pub fn read(&mut self) -> std::io::Result<V> {
        let l = self.line()?;
        let (t, rest) = l.split_at(1);
        let bad = |m: &str| std::io::Error::new(std::io::ErrorKind::InvalidData, m.to_string());
        Ok(match t {
            "+" => V::Str(rest.to_string()),
            "-" => V::Err(rest.to_string()),
            ":" => V::Int(rest.parse().map_err(|_| bad("int"))?),
            "#" => V::Bool(rest == "t"),
            "," => V::Double(rest.parse().unwrap_or(f64::NAN)),
            "_" => V::Null,
            "(" => V::Str(rest.to_string()),
            "$" | "=" | "!" => {
                let n: i64 = rest.parse().map_err(|_| bad("len"))?;
                if n < 0 {
                    V::Null
                } else {
                    let mut b = vec![0u8; n as usize + 2];
                    self.r.read_exact(&mut b)?;
                    b.truncate(n as usize);
                    if t == "!" { V::Err(String::from_utf8_lossy(&b).to_string()) } else { V::Bulk(b) }
                }
            }
            "*" | "~" | ">" => {
                let n: i64 = rest.parse().map_err(|_| bad("len"))?;
                if n < 0 { V::Null } else {
                    let mut v = Vec::with_capacity(n as usize);
                    for _ in 0..n { v.push(self.read()?); }
                    V::Arr(v)
                }
            }
            "%" | "|" => {
                let n: i64 = rest.parse().map_err(|_| bad("len"))?;
                let mut v = Vec::with_capacity(n as usize);
                for _ in 0..n { let k = self.read()?; let val = self.read()?; v.push((k, val)); }
                if t == "|" { return self.read(); }
                V::Map(v)
            }
            _ => return Err(bad(&format!("unknown RESP type {l:?}"))),
        })
    }
}
