//! C17 Segment-log records round-trip and corruption is always detected.
//!
//! Real files, real Writer/Reader/parse_record. Every record is written between
//! two neighbours (A, R, B), read back four ways, then damaged in place (single
//! bit flips, bursts <= 32 bits, truncation by shortening and by zeroing the
//! tail) and read again; a reopened writer must resume at the damaged record.

use std::fs::OpenOptions;
use std::os::unix::fs::FileExt;
use std::path::{Path, PathBuf};

use seglog::parse::parse_record;
use seglog::read::{ReadError, ReadHint, Reader};
use seglog::write::Writer;
use seglog::RECORD_HEAD_SIZE;
use vpc::{Args, Report, Rng, json};

#[derive(Clone, Debug)]
struct Case {
    h: usize,
    size: usize,
    content: &'static str,
    compression: bool,
    start: u64,
    seed: u64,
}

fn case_json(c: &Case) -> vpc::Value {
    json!({"H": c.h, "data_len": c.size, "content": c.content, "compression": c.compression, "start_offset": c.start, "seed": c.seed})
}

fn make_data(rng: &mut Rng, n: usize, kind: &str) -> Vec<u8> {
    match kind {
        "zero" => vec![0u8; n],
        "compressible" => (0..n).map(|i| b"abcdabcdabcdabcx"[i % 16]).collect(),
        _ => rng.bytes(n),
    }
}

#[derive(Clone, Debug, PartialEq, Eq)]
struct Rec {
    off: u64,
    len: usize,
    header: Vec<u8>,
    data: Vec<u8>,
}

#[derive(Debug)]
enum Got {
    Ok(Rec),
    Err(String),
    Panic(String),
}

fn err_class(e: &ReadError) -> String {
    match e {
        ReadError::Crc32cMismatch { .. } => "crc".into(),
        ReadError::OutOfBounds { .. } => "bounds".into(),
        ReadError::TruncationMarker { .. } => "truncation".into(),
        ReadError::ReplaceLengthMismatch { .. } => "replace".into(),
        ReadError::Io(e) => format!("io:{:?}", e.kind()),
    }
}

fn read_one<const H: usize>(r: &mut Reader<H>, off: u64, hint: ReadHint) -> Got {
    let res = std::panic::catch_unwind(std::panic::AssertUnwindSafe(|| match r.read_record(off, hint) {
        Ok(rec) => Got::Ok(Rec { off: rec.offset, len: rec.len, header: rec.header.to_vec(), data: rec.data.to_vec() }),
        Err(e) => Got::Err(err_class(&e)),
    }));
    res.unwrap_or_else(|_| Got::Panic(vpc::last_panic()))
}

/// Iterate from `start`, returning the records yielded and how the iteration ended.
fn iterate<const H: usize>(path: &Path, start: u64) -> (Vec<Rec>, String) {
    let res = std::panic::catch_unwind(|| {
        let mut r = Reader::<H>::open(path, None).expect("open reader");
        let mut it = r.iter(start);
        let mut v = Vec::new();
        loop {
            match it.next_record() {
                Ok(Some(rec)) => v.push(Rec { off: rec.offset, len: rec.len, header: rec.header.to_vec(), data: rec.data.to_vec() }),
                Ok(None) => return (v, "end".to_string()),
                Err(e) => return (v, format!("err:{}", err_class(&e))),
            }
            if v.len() > 16 {
                return (v, "runaway".to_string());
            }
        }
    });
    res.unwrap_or_else(|_| (Vec::new(), format!("panic:{}", vpc::last_panic())))
}

fn parse_at<const H: usize>(bytes: &[u8], off: usize) -> Got {
    let res = std::panic::catch_unwind(|| match parse_record::<H>(bytes, off) {
        Ok((h, d, len)) => Got::Ok(Rec { off: off as u64, len, header: h.to_vec(), data: d }),
        Err(e) => Got::Err(err_class(&e)),
    });
    res.unwrap_or_else(|_| Got::Panic(vpc::last_panic()))
}

fn panic_site(msg: &str) -> &'static str {
    if msg.contains("read.rs") {
        "read.rs"
    } else if msg.contains("parse.rs") {
        "parse.rs"
    } else if msg.contains("write.rs") {
        "write.rs"
    } else {
        "elsewhere"
    }
}

struct Ctx<'a> {
    rep: &'a mut Report,
    case: Case,
    path: PathBuf,
    a: Rec,
    r: Rec,
    b: Rec,
    file_len: u64,
    orig: Vec<u8>, // whole file content up to the end of B
}

fn region(r: &Rec, h: usize, byte: u64) -> &'static str {
    let rel = byte - r.off;
    if rel < 4 {
        "len"
    } else if rel < 8 {
        "crc"
    } else if rel < 8 + h as u64 {
        "header"
    } else {
        "data"
    }
}

impl Ctx<'_> {
    fn viol(&mut self, sig: String, what: String, damage: vpc::Value) {
        let w = json!({"case": case_json(&self.case), "damage": damage});
        self.rep.violation(&sig, format!("{what} [{}]", case_json(&self.case)), w);
    }

    /// Judge all read paths against file content in which R is damaged (`kind` names the damage).
    fn judge_damaged<const H: usize>(&mut self, kind: &str, reg: &str, damage: vpc::Value, rr: &mut Reader<H>, bytes_now: &[u8]) {
        self.rep.evaluations += 1;
        let off = self.r.off;
        // random read through a long-lived reader (no cache on this path), sequential through a fresh one
        for (mode, got) in [
            ("random", read_one::<H>(rr, off, ReadHint::Random)),
            ("sequential", {
                match Reader::<H>::open(&self.path, None) {
                    Ok(mut fresh) => read_one::<H>(&mut fresh, off, ReadHint::Sequential),
                    Err(e) => Got::Err(format!("open:{e}")),
                }
            }),
            ("parse_record", parse_at::<H>(bytes_now, off as usize)),
        ] {
            match got {
                Got::Ok(rec) => self.viol(
                    format!("C17:damaged-record-accepted:{mode}:{kind}:{reg}"),
                    format!("{mode} read of a record with {kind} damage in its {reg} field returned Ok({} data bytes)", rec.data.len()),
                    damage.clone(),
                ),
                Got::Panic(m) => self.viol(
                    format!("C17:panic:{mode}:{}:{reg}", panic_site(&m)),
                    format!("{mode} read of a record with {kind} damage in its {reg} field panicked: {m}"),
                    damage.clone(),
                ),
                Got::Err(_) => {}
            }
        }
        let (recs, end) = iterate::<H>(&self.path, self.case.start);
        if end.starts_with("panic") {
            self.viol(format!("C17:panic:iterate:{}:{reg}", panic_site(&end)), format!("iteration over a segment with {kind} damage in a record's {reg} field {end}"), damage.clone());
        } else {
            if recs.first() != Some(&self.a) {
                self.viol(format!("C17:intact-record-lost:iterate:{kind}"), format!("iteration did not yield the intact first record (got {} records, ended {end})", recs.len()), damage.clone());
            }
            if recs.len() > 1 {
                self.viol(format!("C17:damaged-record-accepted:iterate:{kind}:{reg}"), format!("iteration yielded {} records although the 2nd is damaged (ended {end})", recs.len()), damage.clone());
            }
        }
    }

    fn restore(&self, f: &std::fs::File) {
        f.write_all_at(&self.orig[self.r.off as usize..(self.r.off as usize + self.r.len)], self.r.off).unwrap();
    }
}

fn run_case<const H: usize>(rep: &mut Report, args: &Args, case: Case, flips_budget: usize) {
    let mut rng = Rng::new(case.seed);
    let path = args.work.join(format!("c17-{}-{}.log", args.shard, case.seed));
    let _ = std::fs::remove_file(&path);
    let seg_size = (case.start as usize + case.size + 3 * (H + 64) + 4096).max(8192);
    let na = 5 + rng.usize_below(40);
    let data_a = rng.bytes(na);
    let data_r = make_data(&mut rng, case.size, case.content);
    let nb = 3 + rng.usize_below(200);
    let data_b = rng.bytes(nb);
    let hdr = |rng: &mut Rng| -> [u8; H] {
        let mut h = [0u8; H];
        for x in h.iter_mut() {
            *x = rng.next_u32() as u8;
        }
        h
    };
    let (ha, hr, hb) = (hdr(&mut rng), hdr(&mut rng), hdr(&mut rng));
    let mut w = Writer::<H>::create(&path, seg_size, case.start).expect("create");
    if case.compression {
        w.enable_compression();
    }
    let (oa, la) = w.append(&ha, &data_a).expect("append a");
    let (or, lr) = w.append(&hr, &data_r).expect("append r");
    let (ob, lb) = w.append(&hb, &data_b).expect("append b");
    w.sync().expect("sync");
    let flushed = w.flushed_offset();
    let end = w.write_offset();
    drop(w);
    let a = Rec { off: oa, len: la, header: ha.to_vec(), data: data_a };
    let r = Rec { off: or, len: lr, header: hr.to_vec(), data: data_r };
    let b = Rec { off: ob, len: lb, header: hb.to_vec(), data: data_b };
    let f = OpenOptions::new().read(true).write(true).open(&path).unwrap();
    let file_len = f.metadata().unwrap().len();
    let mut orig = vec![0u8; end as usize];
    f.read_exact_at(&mut orig, 0).unwrap();
    let mut cx = Ctx { rep, case: case.clone(), path: path.clone(), a, r, b, file_len, orig };

    // ---- 1. round trip, four ways -------------------------------------------------
    cx.rep.evaluations += 1;
    {
        let mut rd = Reader::<H>::open(&path, Some(flushed.clone())).unwrap();
        for want in [cx.a.clone(), cx.r.clone(), cx.b.clone()] {
            for (mode, hint) in [("random", ReadHint::Random), ("sequential", ReadHint::Sequential)] {
                match read_one::<H>(&mut rd, want.off, hint) {
                    Got::Ok(got) if got == want => {}
                    other => cx.viol(format!("C17:roundtrip:{mode}"), format!("{mode} read of an intact record at {} differs: {}", want.off, short(&other)), json!("none")),
                }
            }
            match parse_at::<H>(&cx.orig, want.off as usize) {
                Got::Ok(got) if got == want => {}
                other => cx.viol("C17:roundtrip:parse_record".into(), format!("parse_record of an intact record at {} differs: {}", want.off, short(&other)), json!("none")),
            }
        }
        let (recs, endk) = iterate::<H>(&path, case.start);
        // the reader opened without a flushed mark sees the whole preallocated file: iteration must stop at the zeros
        if recs != vec![cx.a.clone(), cx.r.clone(), cx.b.clone()] || endk != "end" {
            cx.viol("C17:roundtrip:iterate".into(), format!("iteration yielded {} records and ended {endk}", recs.len()), json!("none"));
        }
        // iteration from each record boundary
        for (k, want) in [cx.r.clone(), cx.b.clone()].into_iter().enumerate() {
            let (recs, _) = iterate::<H>(&path, want.off);
            if recs.first() != Some(&want) || recs.len() != 2 - k {
                cx.viol("C17:roundtrip:iterate-from-boundary".into(), format!("iteration from {} yielded {} records", want.off, recs.len()), json!("none"));
            }
        }
    }

    // ---- 1b. growing log: every record is read as the TAIL of the flushed log ------
    // A long-lived reader sharing the writer's flushed offset reads each record sequentially right after the
    // sync that flushed it (so the read ends exactly at the flushed offset, whatever the read-ahead window holds),
    // and a second long-lived reader iterates the whole flushed log after every sync.
    {
        let gpath = args.work.join(format!("c17g-{}-{}.log", args.shard, case.seed));
        let _ = std::fs::remove_file(&gpath);
        let mut sizes_g: Vec<usize> = vec![case.size, 0, rng.usize_below(300), case.size];
        if rng.below(4) == 0 {
            sizes_g.push(65_536 + rng.usize_below(9000));
            sizes_g.push(0);
        }
        if rng.below(3) == 0 {
            // a run of small records that walks a record boundary across the 64 KiB read-ahead window end
            sizes_g.push(65_536usize.saturating_sub(2 * case.size + 600).max(1));
            for _ in 0..6 {
                sizes_g.push(rng.usize_below(200));
            }
        }
        rng.shuffle(&mut sizes_g);
        let total: usize = sizes_g.iter().map(|n| n + RECORD_HEAD_SIZE + H + 8).sum();
        let gseg = (case.start as usize + total + 4096).max(8192);
        let mut w = Writer::<H>::create(&gpath, gseg, case.start).expect("create g");
        if case.compression {
            w.enable_compression();
        }
        let fl = w.flushed_offset();
        let mut tail_rd = Reader::<H>::open(&gpath, Some(fl.clone())).unwrap();
        let mut iter_rd = Reader::<H>::open(&gpath, Some(fl.clone())).unwrap();
        let mut written: Vec<Rec> = Vec::new();
        for (k, n) in sizes_g.iter().enumerate() {
            let data = make_data(&mut rng, *n, if k % 2 == 0 { case.content } else { "random" });
            let h = hdr(&mut rng);
            let (off, len) = w.append(&h, &data).expect("append g");
            w.sync().expect("sync g");
            let want = Rec { off, len, header: h.to_vec(), data };
            cx.rep.evaluations += 1;
            cx.rep.count("tail_reads_right_after_sync", 1);
            match read_one::<H>(&mut tail_rd, off, ReadHint::Sequential) {
                Got::Ok(got) if got == want => {}
                other => cx.viol("C17:roundtrip:sequential:tail-record-of-flushed-log".into(), format!("sequential read by a long-lived reader of the intact last flushed record ({} data bytes at {off}, record {k} of the log) differs: {}", n, short(&other)), json!("none")),
            }
            written.push(want);
            let got_all = std::panic::catch_unwind(std::panic::AssertUnwindSafe(|| {
                let mut it = iter_rd.iter(case.start);
                let mut v = Vec::new();
                loop {
                    match it.next_record() {
                        Ok(Some(rec)) => v.push(Rec { off: rec.offset, len: rec.len, header: rec.header.to_vec(), data: rec.data.to_vec() }),
                        Ok(None) => return (v, "end".to_string()),
                        Err(e) => return (v, format!("err:{}", err_class(&e))),
                    }
                    if v.len() > 64 {
                        return (v, "runaway".to_string());
                    }
                }
            }));
            let (recs, endk) = got_all.unwrap_or_else(|_| (Vec::new(), format!("panic:{}", vpc::last_panic())));
            cx.rep.count("iterations_of_growing_flushed_log", 1);
            if recs != written || endk != "end" {
                cx.viol("C17:roundtrip:iterate:growing-flushed-log".into(), format!("iteration of the flushed log by a long-lived reader after record {k} yielded {} of {} records and ended {endk}", recs.len(), written.len()), json!("none"));
            }
        }
        drop(w);
        let _ = std::fs::remove_file(&gpath);
    }

    // ---- 2. bit flips and bursts inside R -----------------------------------------
    let rbits = cx.r.len as u64 * 8;
    let mut rr = Reader::<H>::open(&path, None).unwrap(); // long-lived, random reads only
    let head_bits = ((RECORD_HEAD_SIZE + H) as u64 * 8).min(rbits);
    let mut flip_positions: Vec<u64> = Vec::new();
    if (rbits as usize) <= flips_budget {
        flip_positions.extend(0..rbits);
    } else {
        flip_positions.extend(0..head_bits);
        for _ in 0..flips_budget.saturating_sub(head_bits as usize).min(4096) {
            flip_positions.push(rng.range(head_bits.min(rbits - 1), rbits - 1));
        }
    }
    let mut now = cx.orig.clone();
    for &bit in &flip_positions {
        let byte = cx.r.off + bit / 8;
        let mask = 1u8 << (bit % 8);
        now[byte as usize] ^= mask;
        f.write_all_at(&now[byte as usize..byte as usize + 1], byte).unwrap();
        let reg = region(&cx.r, H, byte);
        cx.judge_damaged::<H>("bitflip", reg, json!({"kind": "bitflip", "byte": byte, "bit": bit % 8}), &mut rr, &now);
        now[byte as usize] ^= mask;
        f.write_all_at(&now[byte as usize..byte as usize + 1], byte).unwrap();
    }
    cx.rep.count("bitflips", flip_positions.len() as u64);
    if (rbits as usize) <= flips_budget {
        cx.rep.count("records_with_every_bit_flipped", 1);
    }
    // bursts: length 2..=32, both end bits set, random interior, start at every bit offset (small) or sampled
    let burst_starts: Vec<u64> = if rbits <= 2048 { (0..rbits - 1).collect() } else { (0..head_bits).chain((0..512).map(|_| rng.below(rbits - 1))).collect() };
    let mut bursts = 0u64;
    for &sbit in &burst_starts {
        let maxlen = (rbits - sbit).min(32);
        if maxlen < 2 {
            continue;
        }
        let l = 2 + rng.below(maxlen - 1);
        let mut pattern: u64 = 1 | 1 << (l - 1);
        if l > 2 {
            pattern |= (rng.next_u64() & ((1u64 << (l - 1)) - 1)) & !1;
        }
        let mut touched = Vec::new();
        for k in 0..l {
            if pattern >> k & 1 == 1 {
                let bit = sbit + k;
                let byte = (cx.r.off + bit / 8) as usize;
                now[byte] ^= 1u8 << (bit % 8);
                if !touched.contains(&byte) {
                    touched.push(byte);
                }
            }
        }
        let lo = *touched.iter().min().unwrap();
        let hi = *touched.iter().max().unwrap();
        f.write_all_at(&now[lo..=hi], lo as u64).unwrap();
        let reg = region(&cx.r, H, lo as u64);
        cx.judge_damaged::<H>("burst", reg, json!({"kind": "burst", "start_bit": sbit, "len_bits": l, "pattern": format!("{pattern:x}")}), &mut rr, &now);
        now[lo..=hi].copy_from_slice(&cx.orig[lo..=hi]);
        f.write_all_at(&now[lo..=hi], lo as u64).unwrap();
        bursts += 1;
    }
    cx.rep.count("bursts", bursts);
    cx.restore(&f);
    drop(rr);

    // ---- 3. truncation: zeroed tail (what a crash leaves) and shortened file ------
    let cuts: Vec<u64> = if cx.r.len <= 600 { (1..cx.r.len as u64).collect() } else {
        let mut v: Vec<u64> = (1..(RECORD_HEAD_SIZE + H + 8).min(cx.r.len) as u64).collect();
        v.extend((0..64).map(|_| 1 + rng.below(cx.r.len as u64 - 1)));
        v.push(cx.r.len as u64 - 1);
        v
    };
    let mut trunc = 0u64;
    for &cut in &cuts {
        let c = cx.r.off + cut; // first lost byte
        // (a) tail zeroed
        let mut z = cx.orig.clone();
        for x in z[c as usize..].iter_mut() {
            *x = 0;
        }
        let r_intact = z[cx.r.off as usize..cx.r.off as usize + cx.r.len] == cx.orig[cx.r.off as usize..cx.r.off as usize + cx.r.len];
        f.write_all_at(&z[c as usize..], c).unwrap();
        if !r_intact {
            let mut fresh = Reader::<H>::open(&path, None).unwrap();
            cx.judge_damaged::<H>("zeroed-tail", region(&cx.r, H, c), json!({"kind": "zeroed-tail", "first_lost_byte": c, "record_off": cx.r.off}), &mut fresh, &z);
        }
        trunc += 1;
        // reopened writer resumes right after the last intact record
        if cut % 7 == 1 || cuts.len() < 64 {
            let expect = if r_intact { cx.r.off + cx.r.len as u64 } else { cx.r.off };
            reopen_check::<H>(&mut cx, seg_size, expect, json!({"kind": "zeroed-tail", "first_lost_byte": c}), &f, r_intact);
        }
        f.write_all_at(&cx.orig[c as usize..], c).unwrap();
        // (b) file shortened to c bytes (a reader without a flushed mark uses the file length)
        f.set_len(c).unwrap();
        {
            let mut fresh = Reader::<H>::open(&path, None).unwrap();
            cx.judge_damaged::<H>("shortened", region(&cx.r, H, c), json!({"kind": "shortened", "new_len": c, "record_off": cx.r.off}), &mut fresh, &cx.orig[..c as usize].to_vec());
        }
        // a writer reopened on the shortened file resumes at the cut record as well
        if cut % 7 == 2 || cuts.len() < 64 {
            cx.rep.evaluations += 1;
            let (p2, start, roff) = (path.clone(), cx.case.start, cx.r.off);
            let damage = json!({"kind": "shortened", "new_len": c, "record_off": roff});
            match std::panic::catch_unwind(|| Writer::<H>::open(&p2, seg_size, start).map(|w| w.write_offset())) {
                Err(_) => {
                    let m = vpc::last_panic();
                    cx.viol(format!("C17:panic:writer-open:{}", panic_site(&m)), format!("Writer::open on a shortened segment panicked: {m}"), damage);
                }
                Ok(Err(e)) => cx.viol("C17:reopen:error:shortened-file".into(), format!("Writer::open on a segment file shortened to {c} bytes failed: {e}"), damage),
                Ok(Ok(wo)) if wo != roff => cx.viol("C17:reopen:wrong-resume-offset".into(), format!("writer reopened on a file shortened to {c} bytes resumes at {wo}, expected {roff} (start of the cut record)"), damage),
                Ok(Ok(_)) => {}
            }
            cx.rep.count("reopens_on_shortened_file", 1);
            f.set_len(cx.file_len).unwrap();
            f.write_all_at(&cx.orig, 0).unwrap();
        }
        f.set_len(cx.file_len).unwrap();
        f.write_all_at(&cx.orig[c as usize..], c).unwrap();
    }
    cx.rep.count("truncations", trunc);
    // bit flip + reopen (sampled)
    // every bit of the length field, plus sampled bits elsewhere
    let reopen_bits: Vec<u64> = (0..32u64.min(rbits)).chain((0..6).map(|_| rng.below(rbits))).collect();
    for bit in reopen_bits {
        let byte = cx.r.off + bit / 8;
        let mut x = [cx.orig[byte as usize] ^ (1u8 << (bit % 8))];
        f.write_all_at(&x, byte).unwrap();
        let roff = cx.r.off;
        reopen_check::<H>(&mut cx, seg_size, roff, json!({"kind": "bitflip", "byte": byte, "bit": bit % 8}), &f, false);
        x[0] = cx.orig[byte as usize];
        f.write_all_at(&x, byte).unwrap();
    }
    let nt = (cx.case.h, cx.case.size, cx.case.content, cx.case.compression);
    cx.rep.nontrivial(&nt);
    if cx.rep.want_sample() {
        let s = json!({"case": case_json(&cx.case), "record_offsets": [cx.a.off, cx.r.off, cx.b.off], "stored_len_of_R": cx.r.len, "bitflips": flip_positions.len(), "bursts": bursts, "truncation_cuts": cuts.len()});
        cx.rep.sample(s);
    }
    drop(f);
    let _ = std::fs::remove_file(&path);
}

/// Open a writer on the (damaged) file: must not panic, must resume at `expect`,
/// and a following append must not damage the intact first record.
fn reopen_check<const H: usize>(cx: &mut Ctx<'_>, seg_size: usize, expect: u64, damage: vpc::Value, f: &std::fs::File, _r_intact: bool) {
    cx.rep.evaluations += 1;
    let path = cx.path.clone();
    let start = cx.case.start;
    let res = std::panic::catch_unwind(|| Writer::<H>::open(&path, seg_size, start).map(|w| (w.write_offset(), w)));
    match res {
        Err(_) => {
            let m = vpc::last_panic();
            cx.viol(format!("C17:panic:writer-open:{}", panic_site(&m)), format!("Writer::open on a damaged segment panicked: {m}"), damage);
        }
        Ok(Err(e)) => cx.viol("C17:reopen:error".into(), format!("Writer::open on a damaged segment failed: {e}"), damage),
        Ok(Ok((wo, mut w))) => {
            if wo != expect {
                cx.viol("C17:reopen:wrong-resume-offset".into(), format!("reopened writer resumes at {wo}, expected {expect} (start of the first damaged record)"), damage.clone());
            }
            // append + read back the intact first record and the new one
            let mut hdr = [0u8; H];
            for x in hdr.iter_mut() {
                *x = 0xA5;
            }
            let newdata = b"post-recovery-record".to_vec();
            let before: Vec<u8> = {
                let mut v = vec![0u8; (seg_size as u64).min(cx.file_len) as usize];
                f.read_exact_at(&mut v, 0).unwrap();
                v
            };
            match w.append(&hdr, &newdata).and_then(|x| w.sync().map(|_| x)) {
                Ok((noff, _)) => {
                    let mut rd = Reader::<H>::open(&path, Some(w.flushed_offset())).unwrap();
                    match read_one::<H>(&mut rd, cx.a.off, ReadHint::Random) {
                        Got::Ok(got) if got == cx.a => {}
                        other => cx.viol("C17:reopen:append-damaged-intact-record".into(), format!("after reopen+append the intact first record reads {}", short(&other)), damage.clone()),
                    }
                    match read_one::<H>(&mut rd, noff, ReadHint::Sequential) {
                        Got::Ok(got) if got.data == newdata => {}
                        other => cx.viol("C17:reopen:new-record-unreadable".into(), format!("record appended after reopen reads {}", short(&other)), damage.clone()),
                    }
                }
                Err(e) => cx.viol("C17:reopen:append-failed".into(), format!("append after reopen failed: {e}"), damage.clone()),
            }
            drop(w);
            // put the file back exactly as it was before the reopen probe
            f.write_all_at(&before, 0).unwrap();
        }
    }
}

fn short(g: &Got) -> String {
    match g {
        Got::Ok(r) => format!("Ok(off={}, len={}, header={} B, data={} B)", r.off, r.len, r.header.len(), r.data.len()),
        Got::Err(e) => format!("Err({e})"),
        Got::Panic(m) => format!("panic({m})"),
    }
}

fn dispatch(rep: &mut Report, args: &Args, case: Case, budget: usize) {
    match case.h {
        0 => run_case::<0>(rep, args, case, budget),
        1 => run_case::<1>(rep, args, case, budget),
        8 => run_case::<8>(rep, args, case, budget),
        16 => run_case::<16>(rep, args, case, budget),
        32 => run_case::<32>(rep, args, case, budget),
        _ => unreachable!(),
    }
}

pub fn sizes(thorough: bool) -> Vec<usize> {
    let mut v = vec![0usize, 1, 2, 7, 8, 24, 56, 120, 127, 128, 129, 248, 504, 1016];
    v.extend(2039..=2057);
    if thorough {
        v.extend(4087..=4105);
        v.extend(65_527..=65_545);
        v.push(200_000);
    } else {
        v.extend([4087, 4088, 4089, 4096, 4104, 65_528, 65_536, 65_537]);
    }
    v
}

pub fn run(args: &Args, rep: &mut Report) {
    vpc::quiet_panics();
    if let Some(w) = args.load_replay() {
        let c = &w["witness"]["case"];
        let content: &'static str = match c["content"].as_str().unwrap_or("random") { "zero" => "zero", "compressible" => "compressible", _ => "random" };
        let case = Case { h: c["H"].as_u64().unwrap() as usize, size: c["data_len"].as_u64().unwrap() as usize, content, compression: c["compression"].as_bool().unwrap(), start: c["start_offset"].as_u64().unwrap(), seed: c["seed"].as_u64().unwrap() };
        dispatch(rep, args, case, 1 << 16);
        return;
    }
    let thorough = args.tier.is_thorough();
    let mut rng = Rng::new(args.shard_seed());
    let mut cases: Vec<Case> = Vec::new();
    // directed: sizes that make H + N a power of two (one flipped bit can zero the length field)
    for h in [0usize, 1, 8, 16, 32] {
        for pow in [8usize, 64, 128, 256, 1024, 4096] {
            if pow > h {
                cases.push(Case { h, size: pow - h, content: "random", compression: false, start: 0, seed: 0 });
            }
        }
    }
    for h in [0usize, 1, 8, 16, 32] {
        for &size in &sizes(thorough) {
            for content in ["random", "compressible", "zero"] {
                for compression in [false, true] {
                    if compression && size < 100 && content != "random" {
                        continue; // below the compression threshold the flag changes nothing
                    }
                    cases.push(Case { h, size, content, compression, start: *rng.pick(&[0u64, 16, 64]), seed: 0 });
                }
            }
        }
    }
    let total = cases.len();
    let mut done = 0u64;
    // round-robin over shards; every case gets its own derived seed
    for (i, mut case) in cases.into_iter().enumerate() {
        if i as u64 % args.shards != args.shard {
            continue;
        }
        if !args.time_left() {
            rep.note(format!("stopped at the time budget after {done} of ~{} cases in this shard", total as u64 / args.shards));
            break;
        }
        case.seed = args.case_seed(i as u64);
        let budget = if thorough { 4 * 4096 * 8 } else { 1100 * 8 };
        dispatch(rep, args, case, budget);
        done += 1;
    }
    rep.count("record_cases", done);
}
