//! C18 Segment-log readers never serve stale or unflushed data.
//!
//! (a) sequential interleavings: one seeded op list mixes writer operations
//!     (append, flush_writer, sync, set_len, compression toggles) with reads through
//!     2-3 long-lived readers that share the writer's FlushedOffset (try_clone):
//!     random and sequential reads, iteration from record boundaries, header
//!     replacement. A writer-side model (offset, header, data, length, flushed mark)
//!     is the oracle.
//! (b) the same with the writer and the readers on separate threads; each read is
//!     bracketed by loads of the flushed offset.

use std::path::PathBuf;
use std::sync::atomic::{AtomicBool, AtomicU64, Ordering};
use std::sync::{Arc, Mutex};

use seglog::read::{ReadError, ReadHint, Reader};
use seglog::write::Writer;
use vpc::{Args, Report, Rng, json};

const H: usize = 8;

#[derive(Clone, Debug, PartialEq, Eq)]
struct MRec {
    off: u64,
    len: usize,
    header: [u8; H],
    data: Vec<u8>,
    id: u64,
    /// header replaced through reader k since it was written (for classification)
    replaced_by: Option<usize>,
}

#[derive(Default)]
struct Model {
    recs: Vec<MRec>, // live records in offset order
    flushed: u64,
    write_offset: u64,
    dropped: Vec<(u64, u64)>, // (offset, id) of truncated records
    set_len_count: u64,
}

fn err_class(e: &ReadError) -> &'static str {
    match e {
        ReadError::Crc32cMismatch { .. } => "crc",
        ReadError::OutOfBounds { .. } => "bounds",
        ReadError::TruncationMarker { .. } => "truncation",
        ReadError::ReplaceLengthMismatch { .. } => "replace",
        ReadError::Io(_) => "io",
    }
}

fn data_for(rng: &mut Rng, id: u64) -> Vec<u8> {
    let n = match rng.below(20) {
        0 => 0,
        1..=12 => 1 + rng.usize_below(300),
        13..=16 => 300 + rng.usize_below(3000),
        17..=18 => 4000 + rng.usize_below(20_000),
        _ => 60_000 + rng.usize_below(12_000),
    };
    // unique, self-describing content: id in the first bytes, then a pattern
    let mut d = Vec::with_capacity(n);
    let tag = id.to_le_bytes();
    let compressible = rng.chance(1, 2);
    for i in 0..n {
        d.push(if i < 8 { tag[i] } else if compressible { (id as u8).wrapping_add((i / 32) as u8) } else { rng.next_u32() as u8 });
    }
    d
}

struct Seq {
    ops: Vec<String>,
}

impl Seq {
    fn push(&mut self, s: String) {
        if self.ops.len() < 400 {
            self.ops.push(s);
        }
    }
}

fn classify(m: &Model, rec: &MRec, reader: usize, had_seq_before: bool) -> &'static str {
    if let Some(k) = rec.replaced_by {
        if k != reader {
            return "after-header-replaced-through-another-reader";
        }
    }
    if m.set_len_count > 0 && m.dropped.iter().any(|(o, _)| *o >= rec.off && *o < rec.off + rec.len as u64 || *o == rec.off) {
        return "offset-reused-after-set_len";
    }
    if m.set_len_count > 0 {
        return "after-set_len";
    }
    if had_seq_before {
        "long-lived-reader-after-later-sync"
    } else {
        "plain"
    }
}

/// One sequential-interleaving case. Returns true when something non-trivial happened.
fn run_seq_case(rep: &mut Report, args: &Args, case_seed: u64, n_ops: usize) {
    let mut rng = Rng::new(case_seed);
    let path: PathBuf = args.work.join(format!("c18-{}-{case_seed}.log", args.shard));
    let _ = std::fs::remove_file(&path);
    let seg_size = 512 * 1024;
    let start = *rng.pick(&[0u64, 64]);
    let mut w = Writer::<H>::create(&path, seg_size, start).expect("create");
    let base = Reader::<H>::open(&path, Some(w.flushed_offset())).expect("open reader");
    let n_readers = 2 + rng.usize_below(2);
    let mut readers: Vec<Reader<H>> = (0..n_readers).map(|_| base.try_clone().expect("clone")).collect();
    let mut seq_used = vec![false; n_readers];
    let mut m = Model { flushed: start, write_offset: start, ..Default::default() };
    let mut next_id = 1u64;
    let mut seq = Seq { ops: vec![] };
    let mut reads_checked = 0u64;
    let mut stale_window_reads = 0u64; // sequential reads of records flushed after this reader last filled its cache
    let mut compression = false;
    let (mut raw_straddling, mut raw_below) = (0u64, 0u64);
    let raw_file = std::fs::File::open(&path).expect("open segment file");
    rep.evaluations += 1;

    macro_rules! viol {
        ($sig:expr, $what:expr) => {{
            let w = json!({"case_seed": case_seed, "ops": seq.ops.clone(), "n_ops": n_ops});
            rep.violation(&$sig, $what, w);
        }};
    }

    for _step in 0..n_ops {
        let k = rng.below(100);
        if k < 28 {
            // append
            let id = next_id;
            next_id += 1;
            let data = data_for(&mut rng, id);
            let mut header = [0u8; H];
            header.copy_from_slice(&(id ^ 0xABCD_0000_0000).to_le_bytes());
            match w.append(&header, &data) {
                Ok((off, len)) => {
                    seq.push(format!("append id={id} n={} -> off={off} len={len}", data.len()));
                    if off != m.write_offset {
                        viol!("C18:append:unexpected-offset".to_string(), format!("append returned offset {off}, model write offset {}", m.write_offset));
                    }
                    m.recs.push(MRec { off, len, header, data, id, replaced_by: None });
                    m.write_offset = off + len as u64;
                }
                Err(seglog::write::WriteError::SegmentFull { .. }) => {
                    seq.push("append -> full".into());
                }
                Err(e) => {
                    rep.inconclusive(format!("append failed: {e}"));
                    break;
                }
            }
        } else if k < 34 {
            w.flush_writer().expect("flush_writer");
            seq.push("flush_writer".into());
        } else if k < 50 {
            let o = w.sync().expect("sync");
            m.flushed = m.write_offset;
            seq.push(format!("sync -> {o}"));
            if o != m.write_offset {
                viol!("C18:sync:unexpected-offset".to_string(), format!("sync returned {o}, model write offset {}", m.write_offset));
            }
        } else if k < 54 {
            // set_len at a record boundary
            if m.recs.len() >= 2 {
                let cut = 1 + rng.usize_below(m.recs.len() - 1);
                let o = m.recs[cut].off;
                w.set_len(o).expect("set_len");
                seq.push(format!("set_len {o}"));
                for r in m.recs.drain(cut..) {
                    m.dropped.push((r.off, r.id));
                }
                m.flushed = o;
                m.write_offset = o;
                m.set_len_count += 1;
            }
        } else if k < 57 {
            compression = !compression;
            if compression { w.enable_compression() } else { w.disable_compression() }
            seq.push(format!("compression={compression}"));
        } else if k < 62 {
            // replace header of a flushed record through one reader
            let flushed: Vec<usize> = (0..m.recs.len()).filter(|i| m.recs[*i].off + m.recs[*i].len as u64 <= m.flushed).collect();
            if !flushed.is_empty() {
                let i = *rng.pick(&flushed);
                let rk = rng.usize_below(n_readers);
                let mut nh = [0u8; H];
                nh.copy_from_slice(&rng.next_u64().to_le_bytes());
                let off = m.recs[i].off;
                match readers[rk].replace_header(off, nh) {
                    Ok(()) => {
                        seq.push(format!("replace_header off={off} via reader {rk}"));
                        m.recs[i].header = nh;
                        m.recs[i].replaced_by = Some(rk);
                    }
                    Err(e) => {
                        let cls = classify(&m, &m.recs[i], rk, seq_used[rk]);
                        viol!(format!("C18:replace_header:failed-on-flushed-record:{}:{cls}", err_class(&e)), format!("replace_header on flushed record at {off} via reader {rk} failed: {e}"));
                    }
                }
            }
        } else if k < 90 {
            // read a record (flushed: must be exact; unflushed / dropped: must not be returned)
            let rk = rng.usize_below(n_readers);
            let sequential = rng.chance(3, 5);
            let hint = if sequential { ReadHint::Sequential } else { ReadHint::Random };
            let mode = if sequential { "sequential" } else { "random" };
            let pick_dropped = !m.dropped.is_empty() && rng.chance(1, 8);
            if pick_dropped {
                let (off, id) = *rng.pick(&m.dropped);
                // only meaningful when nothing live now starts at that offset
                if off >= m.flushed {
                    let res = std::panic::catch_unwind(std::panic::AssertUnwindSafe(|| readers[rk].read_record(off, hint).map(|r| r.data.len())));
                    reads_checked += 1;
                    seq.push(format!("read {mode} reader={rk} dropped off={off}"));
                    match res {
                        Ok(Ok(n)) => viol!(format!("C18:read-beyond-flushed:{mode}:truncated-record"), format!("{mode} read at {off} (record id {id}, truncated by set_len; flushed offset {}) returned Ok with {n} data bytes", m.flushed)),
                        Ok(Err(_)) => {}
                        Err(_) => viol!(format!("C18:panic:{mode}"), format!("panic: {}", vpc::last_panic())),
                    }
                }
            } else if !m.recs.is_empty() {
                let i = rng.usize_below(m.recs.len());
                let rec = m.recs[i].clone();
                let is_flushed = rec.off + rec.len as u64 <= m.flushed;
                let had_seq = seq_used[rk];
                let res = std::panic::catch_unwind(std::panic::AssertUnwindSafe(|| {
                    readers[rk].read_record(rec.off, hint).map(|r| (r.offset, r.len, r.header.to_vec(), r.data.to_vec()))
                }));
                reads_checked += 1;
                seq.push(format!("read {mode} reader={rk} id={} off={} flushed={is_flushed}", rec.id, rec.off));
                if sequential {
                    if had_seq && is_flushed { stale_window_reads += 1; }
                    seq_used[rk] = true;
                }
                match res {
                    Err(_) => viol!(format!("C18:panic:{mode}"), format!("panic: {}", vpc::last_panic())),
                    Ok(Ok((off, len, hdr, data))) => {
                        if !is_flushed {
                            viol!(format!("C18:read-beyond-flushed:{mode}:unflushed-record"), format!("{mode} read at {} returned Ok although the record ends at {} and the flushed offset is {}", rec.off, rec.off + rec.len as u64, m.flushed));
                        } else if off != rec.off || len != rec.len || hdr != rec.header || data != rec.data {
                            let cls = classify(&m, &rec, rk, had_seq);
                            let what = if data != rec.data { "data" } else if hdr != rec.header { "header" } else { "length" };
                            viol!(format!("C18:flushed-record-misread:{mode}:wrong-{what}:{cls}"), format!("{mode} read via reader {rk} of flushed record id {} at {} returned different {what}", rec.id, rec.off));
                        }
                    }
                    Ok(Err(e)) => {
                        if is_flushed {
                            let cls = classify(&m, &rec, rk, had_seq);
                            viol!(format!("C18:flushed-record-misread:{mode}:err-{}:{cls}", err_class(&e)), format!("{mode} read via reader {rk} of flushed record id {} at {} (flushed offset {}) failed: {e}", rec.id, rec.off, m.flushed));
                        }
                    }
                }
            }
        } else {
            // iterate from a record boundary below the flushed mark
            let flushed: Vec<usize> = (0..m.recs.len()).filter(|i| m.recs[*i].off + m.recs[*i].len as u64 <= m.flushed).collect();
            let rk = rng.usize_below(n_readers);
            let from_i = if flushed.is_empty() { 0 } else { *rng.pick(&flushed) };
            let from = if flushed.is_empty() { start } else { m.recs[from_i].off };
            let want: Vec<&MRec> = flushed.iter().filter(|i| **i >= from_i).map(|i| &m.recs[*i]).collect();
            let had_seq = seq_used[rk];
            seq_used[rk] = true;
            seq.push(format!("iterate reader={rk} from={from} expect={} records", want.len()));
            let res = std::panic::catch_unwind(std::panic::AssertUnwindSafe(|| {
                let mut it = readers[rk].iter(from);
                let mut got: Vec<(u64, Vec<u8>, Vec<u8>)> = Vec::new();
                loop {
                    match it.next_record() {
                        Ok(Some(r)) => got.push((r.offset, r.header.to_vec(), r.data.to_vec())),
                        Ok(None) => return (got, None),
                        Err(e) => return (got, Some(err_class(&e))),
                    }
                    if got.len() > 5000 { return (got, Some("runaway")); }
                }
            }));
            reads_checked += 1;
            match res {
                Err(_) => viol!("C18:panic:iterate".to_string(), format!("panic: {}", vpc::last_panic())),
                Ok((got, err)) => {
                    let same = got.len() == want.len() && got.iter().zip(want.iter()).all(|(g, w)| g.0 == w.off && g.1 == w.header && g.2 == w.data);
                    if !same || err.is_some() {
                        let first_bad = got.iter().zip(want.iter()).position(|(g, w)| !(g.0 == w.off && g.1 == w.header && g.2 == w.data)).unwrap_or(got.len().min(want.len()));
                        let cls = if let Some(wr) = want.get(first_bad) { classify(&m, wr, rk, had_seq) } else { "extra-records" };
                        let kind = if got.len() < want.len() { "stops-early" } else if got.len() > want.len() { "yields-beyond-flushed" } else { "wrong-content" };
                        viol!(format!("C18:iterate:{kind}:{cls}"), format!("iteration via reader {rk} from {from} yielded {} records (ended {:?}), model has {} flushed records from there; first difference at index {first_bad}", got.len(), err, want.len()));
                    }
                }
            }
        }
        // raw range reads (Reader::read_bytes, the block-cache path of the store): a range that ends beyond the
        // flushed offset is refused, a range below it returns the file's bytes
        if rng.chance(1, 3) {
            use std::os::unix::fs::FileExt;
            let rk = rng.usize_below(n_readers);
            let fl = m.flushed;
            let max_len = if rng.chance(1, 4) { 70_000 } else { 96 };
            let len = 1 + rng.usize_below(max_len);
            let mut buf = vec![0u8; len];
            // (a) starts at or below the flushed offset, ends beyond it
            let off = fl.saturating_sub(rng.below(len as u64));
            if off + len as u64 > fl {
                raw_straddling += 1;
                if readers[rk].read_bytes(off, &mut buf).is_ok() {
                    viol!("C18:read_bytes:range-ends-beyond-flushed".to_string(), format!("read_bytes({off}, {len}) via reader {rk} returned Ok although the flushed offset is {fl} (write offset {})", m.write_offset));
                }
            }
            // (b) completely below
            if fl > start + 1 {
                let len = (len as u64).min(fl - start) as usize;
                let off = start + rng.below(fl - start - len as u64 + 1);
                let mut buf = vec![0u8; len];
                let mut want = vec![0u8; len];
                raw_file.read_exact_at(&mut want, off).expect("pread");
                raw_below += 1;
                match readers[rk].read_bytes(off, &mut buf) {
                    Ok(()) if buf == want => {}
                    Ok(()) => viol!("C18:read_bytes:wrong-bytes-below-flushed".to_string(), format!("read_bytes({off}, {len}) via reader {rk} differs from the file (flushed offset {fl})")),
                    Err(e) => viol!(format!("C18:read_bytes:refused-below-flushed:{}", err_class(&e)), format!("read_bytes({off}, {len}) via reader {rk} failed although it ends at or below the flushed offset {fl}: {e}")),
                }
            }
        }
        if rep.violations.len() > 12 { break; }
    }
    rep.count("raw_range_reads_straddling_flushed", raw_straddling);
    rep.count("raw_range_reads_below_flushed", raw_below);
    rep.count("reads_checked", reads_checked);
    rep.count("set_len_ops", m.set_len_count);
    rep.count("sequential_reads_through_reader_with_older_cache", stale_window_reads);
    if stale_window_reads > 0 || m.set_len_count > 0 {
        rep.nontrivial(&case_seed);
    }
    if rep.want_sample() && seq.ops.len() > 20 {
        rep.sample(json!({"case_seed": case_seed, "first_ops": seq.ops.iter().take(25).collect::<Vec<_>>(), "n_ops": n_ops}));
    }
    drop(readers);
    drop(w);
    let _ = std::fs::remove_file(&path);
}

// ---------------------------------------------------------------------------------
// (b) writer thread + reader threads
// ---------------------------------------------------------------------------------

#[derive(Clone)]
struct Pub {
    off: u64,
    len: usize,
    header: [u8; H],
    data_hash: u64,
    data_len: usize,
}

fn run_threaded_case(rep: &mut Report, args: &Args, case_seed: u64, millis: u64) {
    let mut rng = Rng::new(case_seed);
    let path: PathBuf = args.work.join(format!("c18t-{}-{case_seed}.log", args.shard));
    let _ = std::fs::remove_file(&path);
    let seg_size = 8 * 1024 * 1024;
    let mut w = Writer::<H>::create(&path, seg_size, 0).expect("create");
    let fo = w.flushed_offset();
    let base = Reader::<H>::open(&path, Some(fo.clone())).expect("open");
    // records known to be synced (published after the writer's sync returned)
    let synced: Arc<Mutex<Vec<Pub>>> = Arc::new(Mutex::new(Vec::new()));
    // every record ever appended (published before the append call): offset -> end
    let appended: Arc<Mutex<Vec<Pub>>> = Arc::new(Mutex::new(Vec::new()));
    let stop = Arc::new(AtomicBool::new(false));
    let checked = Arc::new(AtomicU64::new(0));
    let viols: Arc<Mutex<Vec<(String, String)>>> = Arc::new(Mutex::new(Vec::new()));
    let n_readers = 3;
    let mut hs = Vec::new();
    for rk in 0..n_readers {
        let mut rd = base.try_clone().unwrap();
        let (synced, appended, stop, checked, viols, fo) = (synced.clone(), appended.clone(), stop.clone(), checked.clone(), viols.clone(), fo.clone());
        let mut rrng = Rng::new(case_seed ^ (rk as u64 + 1));
        hs.push(std::thread::spawn(move || {
            let res = std::panic::catch_unwind(std::panic::AssertUnwindSafe(|| {
                while !stop.load(Ordering::Relaxed) {
                    let snapshot: Vec<Pub> = synced.lock().unwrap().clone();
                    if snapshot.is_empty() { std::thread::yield_now(); continue; }
                    let mode = rrng.below(3);
                    if mode < 2 {
                        // must-return: record synced before the read started
                        let p = rrng.pick(&snapshot).clone();
                        let hint = if mode == 0 { ReadHint::Random } else { ReadHint::Sequential };
                        let name = if mode == 0 { "random" } else { "sequential" };
                        match rd.read_record(p.off, hint) {
                            Ok(r) => {
                                if r.len != p.len || r.header[..] != p.header[..] || r.data.len() != p.data_len || vpc::hash_of(&r.data[..]) != p.data_hash {
                                    viols.lock().unwrap().push((format!("C18:threaded:flushed-record-misread:{name}:wrong-content"), format!("reader {rk}: {name} read at {} returned different content", p.off)));
                                }
                            }
                            Err(e) => {
                                viols.lock().unwrap().push((format!("C18:threaded:flushed-record-misread:{name}:err-{}", err_class(&e)), format!("reader {rk}: {name} read of a synced record at {} failed: {e}", p.off)));
                            }
                        }
                        checked.fetch_add(1, Ordering::Relaxed);
                    } else {
                        // must-not-return: probe the newest appended record; if it starts at or
                        // above the flushed mark loaded AFTER the read, an Ok result is a violation
                        let last = appended.lock().unwrap().last().cloned();
                        if let Some(p) = last {
                            let r = rd.read_record(p.off, if rrng.chance(1, 2) { ReadHint::Random } else { ReadHint::Sequential }).map(|r| r.len);
                            let after = fo.load();
                            if r.is_ok() && p.off >= after {
                                viols.lock().unwrap().push(("C18:threaded:read-beyond-flushed".to_string(), format!("reader {rk}: read at {} returned Ok although the flushed offset loaded afterwards is {after}", p.off)));
                            }
                            checked.fetch_add(1, Ordering::Relaxed);
                        }
                    }
                }
            }));
            if res.is_err() {
                viols.lock().unwrap().push(("C18:threaded:panic".to_string(), format!("reader {rk} panicked: {}", vpc::last_panic())));
            }
        }));
    }
    // writer
    let t0 = std::time::Instant::now();
    let mut id = 0u64;
    let mut pending: Vec<Pub> = Vec::new();
    while t0.elapsed().as_millis() < millis as u128 {
        id += 1;
        let data = data_for(&mut rng, id);
        let mut header = [0u8; H];
        header.copy_from_slice(&id.to_le_bytes());
        let off = w.write_offset();
        let p = Pub { off, len: 0, header, data_hash: vpc::hash_of(&data[..]), data_len: data.len() };
        appended.lock().unwrap().push(p.clone());
        match w.append(&header, &data) {
            Ok((o, len)) => {
                pending.push(Pub { off: o, len, ..p });
            }
            Err(_) => break, // segment full
        }
        if rng.chance(1, 3) { w.flush_writer().unwrap(); }
        if rng.chance(1, 4) {
            w.sync().unwrap();
            synced.lock().unwrap().append(&mut pending);
        }
        if rng.chance(1, 50) { std::thread::sleep(std::time::Duration::from_micros(200)); }
    }
    w.sync().unwrap();
    synced.lock().unwrap().append(&mut pending);
    std::thread::sleep(std::time::Duration::from_millis(20));
    stop.store(true, Ordering::Relaxed);
    for h in hs { let _ = h.join(); }
    rep.evaluations += 1;
    rep.count("threaded_reads_checked", checked.load(Ordering::Relaxed));
    rep.count("threaded_records_written", id);
    rep.nontrivial(&("threaded", case_seed));
    for (sig, what) in viols.lock().unwrap().iter().take(20) {
        rep.violation(sig, what.clone(), json!({"mode": "threaded", "case_seed": case_seed}));
    }
    let _ = std::fs::remove_file(&path);
}

pub fn run(args: &Args, rep: &mut Report) {
    vpc::quiet_panics();
    if let Some(w) = args.load_replay() {
        let cs = w["witness"]["case_seed"].as_u64().unwrap();
        if w["witness"]["mode"].as_str() == Some("threaded") {
            run_threaded_case(rep, args, cs, 500);
        } else {
            run_seq_case(rep, args, cs, w["witness"]["n_ops"].as_u64().unwrap_or(300) as usize);
        }
        return;
    }
    let thorough = args.tier.is_thorough();
    let max_cases = if thorough { u64::MAX } else { 3000 };
    let mut case = 0u64;
    // 85% of the budget for sequential interleavings, the rest for the threaded mode
    while args.elapsed_s() < args.budget_s * 0.8 && case < max_cases {
        case += 1;
        run_seq_case(rep, args, args.case_seed(case), 300);
        if rep.violations.len() > 12 { break; }
    }
    rep.count("sequential_cases", case);
    let mut t = 0u64;
    while args.time_left() && t < (if thorough { 400 } else { 6 }) {
        t += 1;
        run_threaded_case(rep, args, args.case_seed(1_000_000 + t), if thorough { 1500 } else { 500 });
    }
}
