//! vp-seglog: workloads on the real `seglog` writer/reader (C17 C18).

mod c17;
mod c18;

use vpc::{Args, Report};

fn main() {
    let args = Args::parse();
    let mut rep = Report::new(&args.prop);
    match args.prop.as_str() {
        "C17" => c17::run(&args, &mut rep),
        "C18" => c18::run(&args, &mut rep),
        p => rep.inconclusive(format!("vp-seglog does not serve {p}")),
    }
    rep.write(&args);
}
