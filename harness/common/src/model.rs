//! Reference event-store model (the oracle). Plain data, never calls into the
//! crates under test. Acceptance rule is taken from the property statement (C02):
//! an append is accepted iff every event's expected version holds against the
//! stream state (including earlier events of the same transaction), the stream's
//! partition key matches, and the expected partition sequence holds.

use std::collections::BTreeMap;

pub type Pid = u16;

#[derive(Clone, Copy, Debug, PartialEq, Eq, Hash)]
pub enum Exp {
    Any,
    Exists,
    Empty,
    Exact(u64),
}

impl Exp {
    /// `current`: None = empty, Some(v) = latest version / sequence.
    pub fn holds(&self, current: Option<u64>) -> bool {
        match (self, current) {
            (Exp::Any, _) => true,
            (Exp::Exists, c) => c.is_some(),
            (Exp::Empty, c) => c.is_none(),
            (Exp::Exact(x), Some(c)) => *x == c,
            (Exp::Exact(_), None) => false,
        }
    }
    pub fn kind(&self) -> &'static str {
        match self {
            Exp::Any => "any",
            Exp::Exists => "exists",
            Exp::Empty => "empty",
            Exp::Exact(_) => "exact",
        }
    }
}

#[derive(Clone, Debug, PartialEq, Eq)]
pub struct MNewEvent {
    pub event_id: u128,
    pub stream: String,
    pub expected: Exp,
    pub name: String,
    pub timestamp: u64,
    pub metadata: Vec<u8>,
    pub payload: Vec<u8>,
}

#[derive(Clone, Debug, PartialEq, Eq)]
pub struct MTxn {
    pub partition_key: u128,
    pub partition_id: Pid,
    pub txn_id: u128,
    pub events: Vec<MNewEvent>,
    pub expected_seq: Exp,
    pub confirmation_count: u8,
}

#[derive(Clone, Debug, PartialEq, Eq)]
pub struct MEvent {
    pub event_id: u128,
    pub partition_key: u128,
    pub partition_id: Pid,
    pub txn_id: u128,
    pub seq: u64,
    pub version: u64,
    pub timestamp: u64,
    pub stream: String,
    pub name: String,
    pub metadata: Vec<u8>,
    pub payload: Vec<u8>,
    pub confirmation_count: u8,
    /// index of the transaction in Model::txns
    pub txn_index: usize,
}

#[derive(Clone, Debug, PartialEq, Eq)]
pub enum Reject {
    WrongVersion { stream: String, expected: Exp, current: Option<u64> },
    KeyMismatch { stream: String },
    WrongSequence { expected: Exp, current: Option<u64> },
}

#[derive(Clone, Debug, PartialEq, Eq)]
pub struct Assigned {
    pub first_seq: u64,
    pub last_seq: u64,
    /// latest version per stream touched by the transaction
    pub stream_versions: BTreeMap<String, u64>,
    /// (sequence, version) per event, in event order
    pub per_event: Vec<(u64, u64)>,
}

#[derive(Clone, Debug)]
pub struct StreamState {
    pub key: u128,
    /// (partition id, index into that partition's vector) per version
    pub events: Vec<(Pid, usize)>,
}

#[derive(Clone, Debug)]
pub struct TxnRecord {
    pub txn: MTxn,
    pub assigned: Assigned,
}

#[derive(Clone, Debug, Default)]
pub struct Model {
    pub buckets: u16,
    pub partitions: BTreeMap<Pid, Vec<MEvent>>,
    /// keyed by (bucket, stream id): the store indexes streams per bucket
    pub streams: BTreeMap<(u16, String), StreamState>,
    pub txns: Vec<TxnRecord>,
}

impl Model {
    pub fn new(buckets: u16) -> Self {
        Model { buckets, ..Default::default() }
    }
    pub fn bucket_of(&self, pid: Pid) -> u16 {
        pid % self.buckets
    }
    pub fn stream_version(&self, pid: Pid, stream: &str) -> Option<u64> {
        self.streams.get(&(self.bucket_of(pid), stream.to_string())).and_then(|s| (s.events.len() as u64).checked_sub(1))
    }
    pub fn stream_key(&self, pid: Pid, stream: &str) -> Option<u128> {
        self.streams.get(&(self.bucket_of(pid), stream.to_string())).map(|s| s.key)
    }
    pub fn partition_seq(&self, pid: Pid) -> Option<u64> {
        self.partitions.get(&pid).and_then(|v| (v.len() as u64).checked_sub(1))
    }
    pub fn partition_events(&self, pid: Pid) -> &[MEvent] {
        self.partitions.get(&pid).map(|v| v.as_slice()).unwrap_or(&[])
    }
    pub fn stream_events(&self, pid: Pid, stream: &str) -> Vec<&MEvent> {
        match self.streams.get(&(self.bucket_of(pid), stream.to_string())) {
            Some(s) => s.events.iter().map(|(p, i)| &self.partitions[p][*i]).collect(),
            None => vec![],
        }
    }
    pub fn event_by_id(&self, id: u128) -> Option<&MEvent> {
        self.partitions.values().flat_map(|v| v.iter()).find(|e| e.event_id == id)
    }

    pub fn check(&self, t: &MTxn) -> Result<Assigned, Reject> {
        let bucket = self.bucket_of(t.partition_id);
        let mut cur: BTreeMap<&str, Option<u64>> = BTreeMap::new();
        let mut per_event_versions = Vec::with_capacity(t.events.len());
        for e in &t.events {
            let key = (bucket, e.stream.clone());
            let c = match cur.get(e.stream.as_str()) {
                Some(c) => *c,
                None => {
                    if let Some(s) = self.streams.get(&key) {
                        if s.key != t.partition_key {
                            return Err(Reject::KeyMismatch { stream: e.stream.clone() });
                        }
                        (s.events.len() as u64).checked_sub(1)
                    } else {
                        None
                    }
                }
            };
            if !e.expected.holds(c) {
                return Err(Reject::WrongVersion { stream: e.stream.clone(), expected: e.expected, current: c });
            }
            let v = c.map(|x| x + 1).unwrap_or(0);
            per_event_versions.push(v);
            cur.insert(e.stream.as_str(), Some(v));
        }
        let pseq = self.partition_seq(t.partition_id);
        if !t.expected_seq.holds(pseq) {
            return Err(Reject::WrongSequence { expected: t.expected_seq, current: pseq });
        }
        let first = pseq.map(|x| x + 1).unwrap_or(0);
        let per_event: Vec<(u64, u64)> = per_event_versions.iter().enumerate().map(|(i, v)| (first + i as u64, *v)).collect();
        Ok(Assigned {
            first_seq: first,
            last_seq: first + t.events.len() as u64 - 1,
            stream_versions: cur.into_iter().map(|(k, v)| (k.to_string(), v.unwrap())).collect(),
            per_event,
        })
    }

    pub fn apply(&mut self, t: &MTxn) -> Result<Assigned, Reject> {
        let a = self.check(t)?;
        let bucket = self.bucket_of(t.partition_id);
        let txn_index = self.txns.len();
        for (e, (seq, version)) in t.events.iter().zip(a.per_event.iter()) {
            let part = self.partitions.entry(t.partition_id).or_default();
            let idx = part.len();
            part.push(MEvent {
                event_id: e.event_id,
                partition_key: t.partition_key,
                partition_id: t.partition_id,
                txn_id: t.txn_id,
                seq: *seq,
                version: *version,
                timestamp: e.timestamp,
                stream: e.stream.clone(),
                name: e.name.clone(),
                metadata: e.metadata.clone(),
                payload: e.payload.clone(),
                confirmation_count: t.confirmation_count,
                txn_index,
            });
            let st = self.streams.entry((bucket, e.stream.clone())).or_insert_with(|| StreamState { key: t.partition_key, events: vec![] });
            debug_assert_eq!(st.events.len() as u64, *version);
            st.events.push((t.partition_id, idx));
        }
        self.txns.push(TxnRecord { txn: t.clone(), assigned: a.clone() });
        Ok(a)
    }

    pub fn total_events(&self) -> usize {
        self.partitions.values().map(|v| v.len()).sum()
    }
}
