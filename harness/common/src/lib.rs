//! Shared plumbing for the verification engines: deterministic RNG, argument
//! parsing, shard reports (evaluations / distinct non-trivial cases / samples /
//! counters / violations / inconclusive reasons).
//!
//! Verdicts are three-valued and never folded: a shard reports violations (with
//! witness), inconclusive reasons, or neither (= held on what was observed).

use std::collections::{BTreeMap, BTreeSet};
use std::hash::{Hash, Hasher};
use std::path::PathBuf;
use std::time::Instant;

pub use serde_json::{Value, json};

pub mod model;

// ---------------------------------------------------------------------------
// RNG: splitmix64-seeded xoshiro256**. No external crate, identical on every
// toolchain, so a witness seed replays exactly.
// ---------------------------------------------------------------------------

#[derive(Clone, Debug)]
pub struct Rng {
    s: [u64; 4],
}

pub fn splitmix(x: &mut u64) -> u64 {
    *x = x.wrapping_add(0x9E37_79B9_7F4A_7C15);
    let mut z = *x;
    z = (z ^ (z >> 30)).wrapping_mul(0xBF58_476D_1CE4_E5B9);
    z = (z ^ (z >> 27)).wrapping_mul(0x94D0_49BB_1331_11EB);
    z ^ (z >> 31)
}

/// Derive a sub-seed from a seed and a list of integers (shard, case index...).
pub fn derive_seed(seed: u64, parts: &[u64]) -> u64 {
    let mut x = seed ^ 0xA076_1D64_78BD_642F;
    let mut out = splitmix(&mut x);
    for p in parts {
        x ^= p.wrapping_mul(0xE703_7ED1_A0B4_28DB);
        out ^= splitmix(&mut x).rotate_left(17);
    }
    out
}

impl Rng {
    pub fn new(seed: u64) -> Self {
        let mut x = seed;
        let s = [
            splitmix(&mut x),
            splitmix(&mut x),
            splitmix(&mut x),
            splitmix(&mut x),
        ];
        Rng { s }
    }
    pub fn next_u64(&mut self) -> u64 {
        let r = self.s[1].wrapping_mul(5).rotate_left(7).wrapping_mul(9);
        let t = self.s[1] << 17;
        self.s[2] ^= self.s[0];
        self.s[3] ^= self.s[1];
        self.s[1] ^= self.s[2];
        self.s[0] ^= self.s[3];
        self.s[2] ^= t;
        self.s[3] = self.s[3].rotate_left(45);
        r
    }
    pub fn next_u32(&mut self) -> u32 {
        (self.next_u64() >> 32) as u32
    }
    /// Uniform in [0, n). n must be > 0.
    pub fn below(&mut self, n: u64) -> u64 {
        assert!(n > 0);
        // multiply-shift; bias is irrelevant here
        ((self.next_u64() as u128 * n as u128) >> 64) as u64
    }
    pub fn usize_below(&mut self, n: usize) -> usize {
        self.below(n as u64) as usize
    }
    /// Uniform in [lo, hi] inclusive.
    pub fn range(&mut self, lo: u64, hi: u64) -> u64 {
        assert!(lo <= hi);
        if lo == 0 && hi == u64::MAX {
            return self.next_u64();
        }
        lo + self.below(hi - lo + 1)
    }
    pub fn chance(&mut self, num: u64, den: u64) -> bool {
        self.below(den) < num
    }
    pub fn pick<'a, T>(&mut self, xs: &'a [T]) -> &'a T {
        &xs[self.usize_below(xs.len())]
    }
    pub fn shuffle<T>(&mut self, xs: &mut [T]) {
        for i in (1..xs.len()).rev() {
            let j = self.usize_below(i + 1);
            xs.swap(i, j);
        }
    }
    pub fn bytes(&mut self, n: usize) -> Vec<u8> {
        let mut v = Vec::with_capacity(n + 8);
        while v.len() < n {
            v.extend_from_slice(&self.next_u64().to_le_bytes());
        }
        v.truncate(n);
        v
    }
    pub fn fork(&mut self) -> Rng {
        Rng::new(self.next_u64())
    }
}

// ---------------------------------------------------------------------------
// Arguments
// ---------------------------------------------------------------------------

#[derive(Clone, Copy, Debug, PartialEq, Eq)]
pub enum Tier {
    Quick,
    Thorough,
}

impl Tier {
    pub fn as_str(&self) -> &'static str {
        match self {
            Tier::Quick => "quick",
            Tier::Thorough => "thorough",
        }
    }
    pub fn is_thorough(&self) -> bool {
        matches!(self, Tier::Thorough)
    }
}

#[derive(Clone, Debug)]
pub struct Args {
    pub prop: String,
    pub tier: Tier,
    pub seed: u64,
    pub shard: u64,
    pub shards: u64,
    pub out: PathBuf,
    pub work: PathBuf,
    /// soft time budget for this shard in seconds (engines stop generating new
    /// cases after it; the driver's hard watchdog is separate and larger)
    pub budget_s: f64,
    pub replay: Option<PathBuf>,
    /// free-form extras: --opt key=value
    pub opts: BTreeMap<String, String>,
    pub started: Instant,
}

impl Args {
    pub fn parse() -> Args {
        let mut a = Args {
            prop: String::new(),
            tier: Tier::Quick,
            seed: 1,
            shard: 0,
            shards: 1,
            out: PathBuf::from("report.json"),
            work: std::env::temp_dir(),
            budget_s: 30.0,
            replay: None,
            opts: BTreeMap::new(),
            started: Instant::now(),
        };
        let mut it = std::env::args().skip(1);
        while let Some(k) = it.next() {
            let mut v = || it.next().unwrap_or_else(|| panic!("missing value for {k}"));
            match k.as_str() {
                "--prop" => a.prop = v(),
                "--tier" => {
                    a.tier = match v().as_str() {
                        "quick" => Tier::Quick,
                        "thorough" => Tier::Thorough,
                        t => panic!("bad tier {t}"),
                    }
                }
                "--seed" => a.seed = v().parse().expect("seed"),
                "--shard" => {
                    let s = v();
                    let (i, n) = s.split_once('/').expect("--shard i/n");
                    a.shard = i.parse().unwrap();
                    a.shards = n.parse().unwrap();
                }
                "--out" => a.out = PathBuf::from(v()),
                "--work" => a.work = PathBuf::from(v()),
                "--budget-s" => a.budget_s = v().parse().expect("budget"),
                "--replay" => a.replay = Some(PathBuf::from(v())),
                "--opt" => {
                    let s = v();
                    let (k, val) = s.split_once('=').unwrap_or((&s, "1"));
                    a.opts.insert(k.to_string(), val.to_string());
                }
                other => panic!("unknown argument {other}"),
            }
        }
        assert!(!a.prop.is_empty(), "--prop required");
        a
    }
    pub fn elapsed_s(&self) -> f64 {
        self.started.elapsed().as_secs_f64()
    }
    pub fn time_left(&self) -> bool {
        self.elapsed_s() < self.budget_s
    }
    pub fn shard_seed(&self) -> u64 {
        derive_seed(self.seed, &[self.shard])
    }
    pub fn case_seed(&self, case: u64) -> u64 {
        derive_seed(self.seed, &[self.shard, case])
    }
    pub fn opt_u64(&self, k: &str, default: u64) -> u64 {
        self.opts.get(k).map(|v| v.parse().unwrap()).unwrap_or(default)
    }
    pub fn load_replay(&self) -> Option<Value> {
        self.replay.as_ref().map(|p| {
            let s = std::fs::read_to_string(p).unwrap_or_else(|e| panic!("read replay {p:?}: {e}"));
            serde_json::from_str(&s).expect("replay json")
        })
    }
}

// ---------------------------------------------------------------------------
// Report
// ---------------------------------------------------------------------------

pub fn hash_of<T: Hash + ?Sized>(t: &T) -> u64 {
    // FNV-1a based hasher: stable across runs and toolchains.
    struct Fnv(u64);
    impl Hasher for Fnv {
        fn finish(&self) -> u64 {
            self.0
        }
        fn write(&mut self, bytes: &[u8]) {
            for b in bytes {
                self.0 ^= *b as u64;
                self.0 = self.0.wrapping_mul(0x0000_0100_0000_01B3);
            }
        }
    }
    let mut h = Fnv(0xcbf2_9ce4_8422_2325);
    t.hash(&mut h);
    h.finish()
}

const MAX_SAMPLES: usize = 4;
const MAX_WITNESS_PER_SIG: usize = 2;
const MAX_NONTRIVIAL_HASHES: usize = 400_000;

#[derive(Debug)]
pub struct Report {
    pub prop: String,
    pub evaluations: u64,
    nontrivial: BTreeSet<u64>,
    nontrivial_overflow: u64,
    /// cases that are distinct by construction (disjoint enumeration), counted not hashed
    pub nontrivial_bulk: u64,
    pub samples: Vec<Value>,
    pub counters: BTreeMap<String, u64>,
    /// sig -> (count, what, witnesses)
    pub violations: BTreeMap<String, (u64, String, Vec<Value>)>,
    pub inconclusive: Vec<String>,
    pub notes: Vec<String>,
}

impl Report {
    pub fn new(prop: &str) -> Self {
        Report {
            prop: prop.to_string(),
            evaluations: 0,
            nontrivial: BTreeSet::new(),
            nontrivial_overflow: 0,
            nontrivial_bulk: 0,
            samples: Vec::new(),
            counters: BTreeMap::new(),
            violations: BTreeMap::new(),
            inconclusive: Vec::new(),
            notes: Vec::new(),
        }
    }
    pub fn eval(&mut self) {
        self.evaluations += 1;
    }
    pub fn evals(&mut self, n: u64) {
        self.evaluations += n;
    }
    /// Record a distinct non-trivial case by a hashable canonical description.
    pub fn nontrivial<T: Hash + ?Sized>(&mut self, key: &T) {
        if self.nontrivial.len() < MAX_NONTRIVIAL_HASHES {
            self.nontrivial.insert(hash_of(key));
        } else if !self.nontrivial.contains(&hash_of(key)) {
            // cannot tell whether distinct any more: count conservatively (not at all)
            self.nontrivial_overflow += 1;
        }
    }
    /// n non-trivial cases that are distinct by construction (disjoint enumeration).
    pub fn nontrivial_distinct_by_construction(&mut self, n: u64) {
        self.nontrivial_bulk += n;
    }
    pub fn nontrivial_count(&self) -> usize {
        self.nontrivial.len()
    }
    pub fn sample(&mut self, v: Value) {
        if self.samples.len() < MAX_SAMPLES {
            self.samples.push(v);
        }
    }
    pub fn want_sample(&self) -> bool {
        self.samples.len() < MAX_SAMPLES
    }
    pub fn count(&mut self, name: &str, n: u64) {
        *self.counters.entry(name.to_string()).or_insert(0) += n;
    }
    pub fn max(&mut self, name: &str, n: u64) {
        let e = self.counters.entry(format!("max.{name}")).or_insert(0);
        if n > *e {
            *e = n;
        }
    }
    pub fn violation(&mut self, sig: &str, what: impl Into<String>, witness: Value) {
        let e = self
            .violations
            .entry(sig.to_string())
            .or_insert_with(|| (0, what.into(), Vec::new()));
        e.0 += 1;
        if e.2.len() < MAX_WITNESS_PER_SIG {
            e.2.push(witness);
        }
    }
    pub fn has_violation(&self) -> bool {
        !self.violations.is_empty()
    }
    pub fn inconclusive(&mut self, why: impl Into<String>) {
        let w = why.into();
        if self.inconclusive.len() < 20 && !self.inconclusive.contains(&w) {
            self.inconclusive.push(w);
        }
    }
    pub fn note(&mut self, n: impl Into<String>) {
        if self.notes.len() < 20 {
            self.notes.push(n.into());
        }
    }
    pub fn to_json(&self) -> Value {
        let viol: Vec<Value> = self
            .violations
            .iter()
            .map(|(sig, (n, what, w))| json!({"sig": sig, "count": n, "what": what, "witnesses": w}))
            .collect();
        json!({
            "prop": self.prop,
            "evaluations": self.evaluations,
            "nontrivial": self.nontrivial.iter().map(|h| format!("{h:016x}")).collect::<Vec<_>>(),
            "nontrivial_overflow": self.nontrivial_overflow,
            "nontrivial_bulk": self.nontrivial_bulk,
            "samples": self.samples,
            "counters": self.counters,
            "violations": viol,
            "inconclusive": self.inconclusive,
            "notes": self.notes,
        })
    }
    pub fn write(&self, args: &Args) {
        let mut v = self.to_json();
        v["wall_s"] = json!(args.elapsed_s());
        v["shard"] = json!(args.shard);
        v["seed"] = json!(args.seed);
        let tmp = args.out.with_extension("tmp");
        std::fs::write(&tmp, serde_json::to_vec(&v).unwrap()).expect("write report");
        std::fs::rename(&tmp, &args.out).expect("rename report");
    }
}

/// Run `f`, converting a panic into Err(message). The default panic hook is
/// silenced while `f` runs when `quiet` is set (expected-panic probing).
pub fn catch<T>(f: impl FnOnce() -> T + std::panic::UnwindSafe) -> Result<T, String> {
    match std::panic::catch_unwind(f) {
        Ok(v) => Ok(v),
        Err(e) => Err(panic_message(&e)),
    }
}

pub fn panic_message(e: &Box<dyn std::any::Any + Send>) -> String {
    if let Some(s) = e.downcast_ref::<&str>() {
        s.to_string()
    } else if let Some(s) = e.downcast_ref::<String>() {
        s.clone()
    } else {
        "panic (non-string payload)".to_string()
    }
}

/// Install a panic hook that records the last panic location+message in a
/// thread-local-free global (for witnesses) and prints nothing.
pub fn quiet_panics() {
    std::panic::set_hook(Box::new(|info| {
        let loc = info
            .location()
            .map(|l| format!("{}:{}", l.file(), l.line()))
            .unwrap_or_default();
        let msg = if let Some(s) = info.payload().downcast_ref::<&str>() {
            s.to_string()
        } else if let Some(s) = info.payload().downcast_ref::<String>() {
            s.clone()
        } else {
            String::new()
        };
        if std::env::var_os("VP_SHOW_PANICS").is_some() {
            eprintln!("panic at {loc}: {msg}");
        }
        *LAST_PANIC.lock().unwrap() = format!("{loc}: {msg}");
    }));
}

pub static LAST_PANIC: std::sync::Mutex<String> = std::sync::Mutex::new(String::new());

pub fn last_panic() -> String {
    LAST_PANIC.lock().unwrap().clone()
}

pub fn hex(b: &[u8]) -> String {
    let mut s = String::with_capacity(b.len() * 2);
    for x in b {
        s.push_str(&format!("{x:02x}"));
    }
    s
}
