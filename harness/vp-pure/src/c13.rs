//! C13 Storage placement agrees with cluster routing for every configuration.
//!
//! Two shipped computations are compared on every validated configuration:
//! `AppConfig::assigned_buckets/assigned_partitions` (what a node opens for
//! storage) and `TopologyManager` (what the cluster claims for and routes to it).

use std::collections::{BTreeSet, HashSet};
use std::path::PathBuf;
use std::time::Duration;

use kameo::actor::ActorId;
use sierradb_server::config::*;
use sierradb_topology::TopologyManager;
use sierradb_topology::test_helpers::create_test_peer_id;
use vpc::{Args, Report, Rng, json};

pub fn make_config(n: u32, index: u32, buckets: u16, partitions: u16, rf: u8) -> AppConfig {
    AppConfig {
        append: AppendConfig { strict_versioning: true },
        bucket: BucketConfig { count: buckets, ids: None },
        cache: CacheConfig { capacity_bytes: 1 << 20 },
        dir: PathBuf::from("/nonexistent"),
        heartbeat: HeartbeatConfig { interval_ms: 1000, timeout_ms: 6000 },
        network: NetworkConfig {
            cluster_enabled: true,
            cluster_address: "/ip4/127.0.0.1/tcp/0".parse().unwrap(),
            client_address: "127.0.0.1:9090".into(),
            mdns: false,
        },
        node: NodeConfig { count: Some(n), index },
        partition: PartitionConfig { count: partitions, ids: None },
        replication: ReplicationConfig { buffer_size: 100, buffer_timeout_ms: 8000, catchup_timeout_ms: 2000, factor: rf },
        segment: SegmentConfig { size_bytes: 256 * 1024, compression: true },
        sync: SyncConfig { interval_ms: 5, idle_interval_ms: None, max_batch_size: 50, min_bytes: 4096 },
        threads: Threads { read: None, write: None },
        nodes: None,
    }
}

fn node_ref(i: usize) -> ActorId {
    ActorId::new_with_peer_id(0, create_test_peer_id(i))
}

// Independent descriptions of the two placement rules (used only to *classify*
// a disagreement for the known-findings signature, never to decide one).
fn rule_blocks(i: usize, n: usize, buckets: usize, rf: usize) -> BTreeSet<u16> {
    let eff = rf.min(n);
    let per = buckets / n;
    let extra = buckets % n;
    let mut s = BTreeSet::new();
    for off in 0..eff {
        let prim = (i + n - off) % n;
        let start = prim * per + prim.min(extra);
        let cnt = per + usize::from(prim < extra);
        for b in start..start + cnt {
            s.insert(b as u16);
        }
    }
    s
}
fn rule_modulo(i: usize, n: usize, buckets: usize, rf: usize) -> BTreeSet<u16> {
    let eff = rf.min(n);
    (0..buckets).filter(|b| (i + n - b % n) % n < eff).map(|b| b as u16).collect()
}

pub struct Outcome {
    pub nontrivial: bool,
}

pub fn check_config(rep: &mut Report, n: u32, buckets: u16, partitions: u16, rf: u8, full_membership: bool) -> Option<Outcome> {
    // validation is the gate: only configurations the server would start with
    let cfg0 = make_config(n, 0, buckets, partitions, rf);
    match cfg0.validate() {
        Ok(errs) if errs.is_empty() => {}
        Ok(_) => return None,
        Err(_) => return None,
    }
    rep.evaluations += 1;
    let nn = n as usize;
    let witness = json!({"nodes": n, "buckets": buckets, "partitions": partitions, "rf": rf});
    // the gate itself at the edge of the index range: whatever validation accepts must satisfy the property too
    for idx in [n, n.saturating_add(1), u32::MAX] {
        let cfg = make_config(n, idx, buckets, partitions, rf);
        let accepted = matches!(std::panic::catch_unwind(|| cfg.validate()), Ok(Ok(ref e)) if e.is_empty());
        if !accepted {
            rep.count("out_of_range_node_index_rejected_by_validation", 1);
            continue;
        }
        let cb: BTreeSet<u16> = match std::panic::catch_unwind(|| cfg.assigned_buckets()) { Ok(Ok(b)) => b.iter().copied().collect(), _ => BTreeSet::new() };
        let tb: BTreeSet<u16> = match std::panic::catch_unwind(|| TopologyManager::new(node_ref(0), idx as usize, nn, partitions, buckets, rf, Duration::from_secs(30))) {
            Ok(m) => m.assigned_partitions.iter().map(|p| p % buckets).collect(),
            Err(_) => BTreeSet::new(),
        };
        if cb != tb {
            rep.violation("C13:placement:validation-accepts-node-index-out-of-range", format!("validation accepts node index {idx} of {n} nodes ({witness}): that node opens buckets {:?} while the topology assigns it partitions in buckets {:?}", cb.iter().take(8).collect::<Vec<_>>(), tb.iter().take(8).collect::<Vec<_>>()), json!({"nodes": n, "buckets": buckets, "partitions": partitions, "rf": rf, "node": idx}));
        }
    }
    let mut cfg_parts: Vec<HashSet<u16>> = Vec::with_capacity(nn);
    let mut cfg_buckets: Vec<HashSet<u16>> = Vec::with_capacity(nn);
    let mut mismatch_nodes = 0;
    let mut managers = Vec::new();
    for i in 0..nn {
        let cfg = make_config(n, i as u32, buckets, partitions, rf);
        if !matches!(cfg.validate(), Ok(ref e) if e.is_empty()) {
            return None;
        }
        let cb = match std::panic::catch_unwind(|| cfg.assigned_buckets()) {
            Ok(Ok(b)) => b,
            Ok(Err(e)) => {
                rep.violation("C13:assigned_buckets:error", format!("{e} for {witness}"), witness.clone());
                return None;
            }
            Err(_) => {
                rep.violation("C13:assigned_buckets:panic", format!("{} for {witness} node {i}", vpc::last_panic()), witness.clone());
                return None;
            }
        };
        let cp = cfg.assigned_partitions(&cb);
        let m = match std::panic::catch_unwind(|| TopologyManager::new(node_ref(i), i, nn, partitions, buckets, rf, Duration::from_secs(30))) {
            Ok(m) => m,
            Err(_) => {
                rep.violation("C13:topology-new:panic", format!("{} for {witness} node {i}", vpc::last_panic()), witness.clone());
                return None;
            }
        };
        let tp: HashSet<u16> = m.assigned_partitions.clone();
        let tb: BTreeSet<u16> = tp.iter().map(|p| p % buckets).collect();
        let cbs: BTreeSet<u16> = cb.iter().copied().collect();
        if (cp != tp || cbs != tb) && mismatch_nodes >= 3 {
            mismatch_nodes += 1; // enough witnesses for this configuration
        } else if cp != tp || cbs != tb {
            mismatch_nodes += 1;
            // classify for the signature
            // (partitions >= buckets is validated, so every bucket holds a partition)
            let is_known_shape = cbs == rule_blocks(i, nn, buckets as usize, rf as usize)
                && tb == rule_modulo(i, nn, buckets as usize, rf as usize);
            let routed_outside: Vec<u16> = tb.difference(&cbs).copied().take(4).collect();
            let sig = if is_known_shape {
                "C13:placement:config-contiguous-blocks-vs-topology-modulo"
            } else {
                "C13:placement:mismatch-other"
            };
            rep.violation(
                sig,
                format!(
                    "node {i} of {witness}: config opens buckets {:?} but topology claims partitions in buckets {:?} (routed to unopened buckets: {:?})",
                    cbs.iter().take(8).collect::<Vec<_>>(), tb.iter().take(8).collect::<Vec<_>>(), routed_outside
                ),
                json!({"nodes": n, "buckets": buckets, "partitions": partitions, "rf": rf, "node": i}),
            );
        }
        cfg_parts.push(cp);
        cfg_buckets.push(cb);
        managers.push(m);
    }
    if full_membership && nn > 1 {
        // node 0 learns every other node (heartbeats), then its routing table must
        // list node i for partition p exactly when node i stores p
        let owned: Vec<(ActorId, HashSet<u16>, u64)> = managers.iter().map(|m| (m.local_cluster_ref, m.assigned_partitions.clone(), m.alive_since)).collect();
        let index_of: std::collections::HashMap<ActorId, usize> = owned.iter().enumerate().map(|(i, o)| (o.0, i)).collect();
        let m0 = &mut managers[0];
        for (j, (r, parts, alive)) in owned.iter().enumerate().skip(1) {
            m0.on_heartbeat(*r, parts, *alive, j, nn);
        }
        'parts: for p in 0..partitions {
            let reps: HashSet<usize> = m0
                .partition_replicas
                .get(&p)
                .map(|v| v.iter().map(|r| index_of[r]).collect())
                .unwrap_or_default();
            for i in 0..nn {
                let stores = cfg_buckets[i].contains(&(p % buckets));
                if reps.contains(&i) && !stores {
                    let known = (0..nn).all(|k| {
                        let cbs: BTreeSet<u16> = cfg_buckets[k].iter().copied().collect();
                        cbs == rule_blocks(k, nn, buckets as usize, rf as usize)
                    });
                    rep.violation(
                        if known && mismatch_nodes > 0 { "C13:routing:routed-to-node-without-bucket:blocks-vs-modulo" } else { "C13:routing:routed-to-node-without-bucket:other" },
                        format!("{witness}: partition {p} (bucket {}) is routed to node {i}, which does not open that bucket", p % buckets),
                        json!({"nodes": n, "buckets": buckets, "partitions": partitions, "rf": rf, "node": i, "partition": p}),
                    );
                    break 'parts; // one routing witness per configuration
                }
            }
        }
    }
    if rep.want_sample() && nn >= 2 {
        let b0: BTreeSet<u16> = cfg_buckets[0].iter().copied().collect();
        let t0: BTreeSet<u16> = managers[0].assigned_partitions.iter().map(|p| p % buckets).collect();
        rep.sample(json!({"config": witness, "node0_config_buckets": b0, "node0_topology_buckets": t0}));
    }
    Some(Outcome { nontrivial: (rf as u32) < n })
}

pub fn run(args: &Args, rep: &mut Report) {
    vpc::quiet_panics();
    if let Some(w) = args.load_replay() {
        let w = &w["witness"];
        check_config(rep, w["nodes"].as_u64().unwrap() as u32, w["buckets"].as_u64().unwrap() as u16, w["partitions"].as_u64().unwrap() as u16, w["rf"].as_u64().unwrap() as u8, true);
        return;
    }
    let thorough = args.tier.is_thorough();
    let mut rng = Rng::new(args.shard_seed());
    // directed smallest witness of the known placement disagreement
    if args.shard == 0 {
        check_config(rep, 2, 4, 4, 1, true);
    }
    // exhaustive small space, split over shards by a running index
    let (max_n, max_b, max_p) = if thorough { (6u32, 12u16, 24u16) } else { (5, 8, 12) };
    let mut idx = 0u64;
    for n in 1..=max_n {
        for b in 1..=max_b {
            for p in b.max(n as u16)..=max_p {
                for rf in 1..=(n as u8) {
                    idx += 1;
                    if idx % args.shards != args.shard {
                        continue;
                    }
                    if let Some(o) = check_config(rep, n, b, p, rf, true) {
                        if o.nontrivial {
                            rep.nontrivial(&(n, b, p, rf));
                        }
                    }
                }
            }
        }
    }
    rep.count("exhaustive_small_space_configs", idx / args.shards);
    // sampled large configurations
    let samples = if thorough { 4_000 } else { 150 };
    for k in 0..samples {
        if !args.time_left() {
            rep.note("sampling stopped at the time budget");
            break;
        }
        let n = match rng.below(4) { 0 => 1 + rng.below(8) as u32, 1 => 1 + rng.below(40) as u32, 2 => *rng.pick(&[255u32, 256, 257, 300]), _ => 1 + rng.below(300) as u32 };
        let b = match rng.below(3) { 0 => 1 + rng.below(16) as u16, 1 => 1 + rng.below(512) as u16, _ => 1 + rng.below(65_535) as u16 };
        let lo = (b as u32).max(n);
        if lo > 65_535 { continue; }
        let p = match rng.below(3) { 0 => lo as u16, 1 => (lo + rng.below(64) as u32).min(65_535) as u16, _ => rng.range(lo as u64, 65_535) as u16 };
        // cost control: managers are O(partitions * rf) each, N of them
        if (p as u64) * (n as u64) > (if thorough { 3_000_000 } else { 300_000 }) { continue; }
        let rf = 1 + rng.below((n.min(12)) as u64) as u8;
        let full = n <= 64 && k % 4 == 0;
        if let Some(o) = check_config(rep, n, b, p, rf, full) {
            rep.count("sampled_large_configs", 1);
            if o.nontrivial {
                rep.nontrivial(&(n, b, p, rf));
            }
        }
    }
}
