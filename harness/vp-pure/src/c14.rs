//! C14 Every partition has exactly min(rf, N) distinct replicas, the same on every node.
//!
//! Real `TopologyManager<ActorId>` instances (no network). Membership events are
//! delivered to each node in independent random orders through the public entry
//! points the libp2p behaviour calls.

use std::collections::{BTreeMap, BTreeSet, HashMap};
use std::time::Duration;

use arrayvec::ArrayVec;
use kameo::actor::ActorId;
use libp2p::PeerId;
use sierradb_topology::TopologyManager;
use sierradb_topology::test_helpers::create_test_peer_id;
use vpc::{Args, Report, Rng, json};

type Mgr = TopologyManager<ActorId>;

fn node_ref(i: usize) -> ActorId {
    ActorId::new_with_peer_id(0, create_test_peer_id(i))
}

struct Cluster {
    n: usize,
    buckets: u16,
    partitions: u16,
    rf: u8,
    mgrs: Vec<Mgr>,
    peers: Vec<PeerId>,
    index_of: HashMap<ActorId, usize>,
}

fn build(n: usize, buckets: u16, partitions: u16, rf: u8, timeout: Duration, distinct_alive: bool) -> Result<Cluster, String> {
    let mut mgrs = Vec::with_capacity(n);
    let mut peers = Vec::with_capacity(n);
    let mut index_of = HashMap::new();
    for i in 0..n {
        let r = node_ref(i);
        let m = std::panic::catch_unwind(|| Mgr::new(r, i, n, partitions, buckets, rf, timeout)).map_err(|_| vpc::last_panic())?;
        let mut m = m;
        if distinct_alive {
            // nodes started in different seconds (later index = earlier start, so order != index order)
            let alive = 1_700_000_000 + ((n - i) as u64 * 7) % 1000;
            m.alive_since = alive;
            let pid = *r.peer_id().unwrap();
            m.active_nodes.insert(pid, (alive, i));
        }
        peers.push(*r.peer_id().unwrap());
        index_of.insert(r, i);
        mgrs.push(m);
    }
    Ok(Cluster { n, buckets, partitions, rf, mgrs, peers, index_of })
}

impl Cluster {
    fn params(&self) -> vpc::Value {
        json!({"nodes": self.n, "buckets": self.buckets, "partitions": self.partitions, "rf": self.rf})
    }
    fn hb(&mut self, to: usize, from: usize) {
        let (r, parts, alive) = { let m = &self.mgrs[from]; (m.local_cluster_ref, m.assigned_partitions.clone(), m.alive_since) };
        let n = self.n;
        self.mgrs[to].on_heartbeat(r, &parts, alive, from, n);
    }
    fn connect(&mut self, to: usize, from: usize) {
        let (r, parts, alive) = { let m = &self.mgrs[from]; (m.local_cluster_ref, m.assigned_partitions.clone(), m.alive_since) };
        let n = self.n;
        let _ = self.mgrs[to].on_node_connected(r, &parts, alive, from, n);
    }
    /// Ownership response from `from` (its current public state) delivered to `to`.
    /// The wire format goes through HashMap<ref, HashSet<partition>>, which loses
    /// the order inside each replica list: reproduced by shuffling every list.
    fn ownership_response(&mut self, to: usize, from: usize, rng: &mut Rng) -> bool {
        let to_peer = self.peers[to];
        if !self.mgrs[from].active_nodes.contains_key(&to_peer) {
            return false; // the real sender answers only after it registered the requester
        }
        let mut reps: HashMap<u16, ArrayVec<ActorId, 12>> = HashMap::new();
        for (p, list) in &self.mgrs[from].partition_replicas {
            let mut v: Vec<ActorId> = list.iter().copied().collect();
            if v.is_empty() {
                continue; // a partition without replicas has no entry on the wire
            }
            rng.shuffle(&mut v);
            reps.insert(*p, v.into_iter().collect());
        }
        let active = self.mgrs[from].active_nodes.clone();
        self.mgrs[to].handle_ownership_response(&reps, active);
        self.mgrs[to].ensure_local_partitions();
        true
    }
}

fn active_key(m: &Mgr) -> BTreeMap<String, (u64, usize)> {
    m.active_nodes.iter().map(|(p, v)| (p.to_string(), *v)).collect()
}

/// Static check with full membership on node `at`.
fn check_full(rep: &mut Report, c: &Cluster, at: usize, tag: &str) {
    let want = (c.rf as usize).min(c.n);
    let m = &c.mgrs[at];
    for p in 0..c.partitions {
        let list: Vec<ActorId> = m.partition_replicas.get(&p).map(|v| v.iter().copied().collect()).unwrap_or_default();
        let set: BTreeSet<usize> = list.iter().map(|r| c.index_of[r]).collect();
        if list.len() != want || set.len() != list.len() {
            let class = if c.n >= 256 { "N>=256" } else { "N<256" };
            rep.violation(
                &format!("C14:replica-count:{class}"),
                format!("{} {tag}: partition {p} has replicas {:?} on node {at}, expected {want} distinct", c.params(), set),
                json!({"nodes": c.n, "buckets": c.buckets, "partitions": c.partitions, "rf": c.rf, "partition": p}),
            );
            return;
        }
        for i in 0..c.n {
            let owns = c.mgrs[i].has_partition(p);
            if owns != set.contains(&i) {
                let class = if c.n >= 256 { "N>=256" } else { "N<256" };
                rep.violation(
                    &format!("C14:ownership-vs-membership:{class}"),
                    format!("{} {tag}: node {i} owns partition {p} = {owns}, but replica set on node {at} is {:?}", c.params(), set),
                    json!({"nodes": c.n, "buckets": c.buckets, "partitions": c.partitions, "rf": c.rf, "partition": p, "node": i}),
                );
                return;
            }
        }
    }
}

/// Agreement between every two nodes that know the same live members.
fn check_agreement(rep: &mut Report, c: &Cluster, trace: &[String]) -> usize {
    let mut compared = 0;
    let keys: Vec<_> = c.mgrs.iter().map(active_key).collect();
    for a in 0..c.n {
        for b in (a + 1)..c.n {
            if keys[a] != keys[b] {
                continue;
            }
            compared += 1;
            for p in 0..c.partitions {
                let sa: BTreeSet<usize> = c.mgrs[a].partition_replicas.get(&p).map(|v| v.iter().map(|r| c.index_of[r]).collect()).unwrap_or_default();
                let sb: BTreeSet<usize> = c.mgrs[b].partition_replicas.get(&p).map(|v| v.iter().map(|r| c.index_of[r]).collect()).unwrap_or_default();
                let oa: Vec<usize> = c.mgrs[a].get_available_replicas(p).iter().map(|(r, _)| c.index_of[r]).collect();
                let ob: Vec<usize> = c.mgrs[b].get_available_replicas(p).iter().map(|(r, _)| c.index_of[r]).collect();
                if sa != sb || oa != ob {
                    let which = if sa != sb { "replica-set" } else { "coordinator-order" };
                    rep.violation(
                        &format!("C14:disagreement:{which}"),
                        format!("{}: nodes {a} and {b} know the same live members {:?} but partition {p}: sets {sa:?} vs {sb:?}, coordinator order {oa:?} vs {ob:?}", c.params(), keys[a].values().map(|v| v.1).collect::<Vec<_>>()),
                        json!({"nodes": c.n, "buckets": c.buckets, "partitions": c.partitions, "rf": c.rf, "trace": trace}),
                    );
                    return compared;
                }
            }
        }
    }
    compared
}

fn run_orders(rep: &mut Report, rng: &mut Rng, n: usize, buckets: u16, partitions: u16, rf: u8, seed: u64) {
    let distinct_alive = rng.chance(1, 2);
    let mut c = match build(n, buckets, partitions, rf, Duration::from_millis(1), distinct_alive) {
        Ok(c) => c,
        Err(e) => {
            rep.violation("C14:new:panic", format!("TopologyManager::new panicked: {e}"), json!({"nodes": n, "buckets": buckets, "partitions": partitions, "rf": rf}));
            return;
        }
    };
    rep.evaluations += 1;
    let mut trace: Vec<String> = vec![format!("seed={seed} distinct_alive={distinct_alive}")];
    let steps = 6 + rng.usize_below(8 * n);
    let mut kinds = BTreeSet::new();
    let mut inversions = false;
    let mut last_pair = (0usize, 0usize);
    for _ in 0..steps {
        let to = rng.usize_below(n);
        let mut from = rng.usize_below(n);
        if from == to {
            from = (from + 1) % n;
        }
        if n == 1 { break; }
        let k = rng.below(10);
        let ev = match k {
            0..=3 => { c.hb(to, from); "hb" }
            4..=5 => { c.connect(to, from); "connect" }
            6..=7 => {
                // request/response pair: `from` registers `to`, then answers
                c.connect(from, to);
                if c.ownership_response(to, from, rng) { "ownership" } else { "ownership-skipped" }
            }
            8 => { let p = c.peers[from]; c.mgrs[to].on_node_disconnected(&p); "disconnect" }
            _ => {
                // time passes; everybody but `from` keeps sending heartbeats to `to`
                std::thread::sleep(Duration::from_millis(2));
                for j in 0..n {
                    if j != from && j != to && c.mgrs[to].active_nodes.contains_key(&c.peers[j]) {
                        c.hb(to, j);
                    }
                }
                c.mgrs[to].check_heartbeat_timeouts();
                "timeout"
            }
        };
        if (to, from) < last_pair { inversions = true; }
        last_pair = (to, from);
        kinds.insert(ev);
        trace.push(format!("{ev} {from}->{to}"));
        let cmp = check_agreement(rep, &c, &trace);
        rep.count("pairs_compared_same_membership", cmp as u64);
        if rep.has_violation() && trace.len() > 400 { return; }
    }
    // settle: everybody hears from everybody, nothing times out
    for m in c.mgrs.iter_mut() { m.heartbeat_timeout = Duration::from_secs(3600); }
    for to in 0..n { for from in 0..n { if to != from { c.hb(to, from); } } }
    trace.push("settle".into());
    let cmp = check_agreement(rep, &c, &trace);
    rep.count("pairs_compared_same_membership", cmp as u64);
    for at in 0..n.min(3) {
        check_full(rep, &c, at, "after settle");
    }
    if kinds.len() >= 4 && inversions {
        rep.nontrivial(&(n, buckets, partitions, rf, seed));
    }
    if rep.want_sample() && n >= 3 {
        rep.sample(json!({"params": c.params(), "events": trace.iter().take(14).collect::<Vec<_>>(), "total_events": trace.len()}));
    }
}

fn static_case(rep: &mut Report, n: usize, buckets: u16, partitions: u16, rf: u8) {
    rep.evaluations += 1;
    let mut c = match build(n, buckets, partitions, rf, Duration::from_secs(3600), false) {
        Ok(c) => c,
        Err(e) => {
            rep.violation("C14:new:panic", format!("TopologyManager::new panicked: {e}"), json!({"nodes": n, "buckets": buckets, "partitions": partitions, "rf": rf}));
            return;
        }
    };
    for from in 1..n { c.hb(0, from); }
    check_full(rep, &c, 0, "static full membership");
    rep.nontrivial(&("static", n, buckets, partitions, rf));
}

pub fn run(args: &Args, rep: &mut Report) {
    vpc::quiet_panics();
    if let Some(w) = args.load_replay() {
        let w = &w["witness"];
        let (n, b, p, rf) = (w["nodes"].as_u64().unwrap() as usize, w["buckets"].as_u64().unwrap() as u16, w["partitions"].as_u64().unwrap() as u16, w["rf"].as_u64().unwrap() as u8);
        static_case(rep, n, b, p, rf);
        if let Some(t) = w["trace"].as_array() {
            if let Some(seed) = t.first().and_then(|s| s.as_str()).and_then(|s| s.split_whitespace().next()).and_then(|s| s.strip_prefix("seed=")).and_then(|s| s.parse::<u64>().ok()) {
                let mut rng = Rng::new(seed);
                run_orders(rep, &mut rng, n, b, p, rf, seed);
            }
        }
        return;
    }
    let thorough = args.tier.is_thorough();
    let mut rng = Rng::new(args.shard_seed());
    // static: N in 1..40 plus the u8 boundary sizes, spread over shards
    let sizes: Vec<usize> = (1..=40).chain([255, 256, 257, 300]).collect();
    for (k, &n) in sizes.iter().enumerate() {
        if k as u64 % args.shards != args.shard { continue; }
        for rf in [1u8, 2, 3, 5, 12] {
            let b = 1 + rng.below(if n > 100 { 600 } else { 64 }) as u16;
            let p = (b as u32 + rng.below(200) as u32).max(n as u32).min(2000) as u16;
            let p = p.max(b);
            static_case(rep, n, b, p, rf);
        }
    }
    // random membership-event orders
    let mut case = 0u64;
    while args.time_left() {
        case += 1;
        let seed = args.case_seed(case);
        let mut r = Rng::new(seed);
        let n = match r.below(10) { 0..=5 => 2 + r.usize_below(5), 6..=8 => 2 + r.usize_below(12), _ => 2 + r.usize_below(30) };
        let b = 1 + r.below(24) as u16;
        let p = (b as u64 + r.below(40)).max(n as u64) as u16;
        let rf = 1 + r.below(6.min(12)) as u8;
        run_orders(rep, &mut r, n, b, p, rf, seed);
        if !thorough && case >= 4000 { break; }
    }
    rep.count("order_cases", case);
}
