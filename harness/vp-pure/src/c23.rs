//! C23 Identifiers embed and preserve their partition routing.

use sierradb::StreamId;
use sierradb::bucket::segment::EventRecord;
use sierradb::database::{ExpectedVersion, NewEvent, Transaction};
use sierradb::id::{
    extract_event_id_bucket, get_uuid_flag, partition_id_to_bucket, set_uuid_flag,
    uuid_to_partition_hash, uuid_v7_with_partition_hash, validate_event_id,
};
use smallvec::smallvec;
use uuid::Uuid;
use vpc::{Args, Report, Rng, json};

const FLAG_BIT: u128 = 1u128 << 63; // byte 8, most significant bit

fn check_flag(rep: &mut Report, u: Uuid) {
    rep.evaluations += 1;
    let v = u.as_u128();
    for flag in [true, false] {
        let r = set_uuid_flag(u, flag).as_u128();
        let want = if flag { v | FLAG_BIT } else { v & !FLAG_BIT };
        if r != want {
            rep.violation(
                "C23:flag:changes-other-bits",
                format!("set_uuid_flag({u}, {flag}) = {:032x}, expected {want:032x}", r),
                json!({"uuid": u.to_string(), "flag": flag}),
            );
        }
        if get_uuid_flag(&Uuid::from_u128(r)) != flag {
            rep.violation(
                "C23:flag:get-disagrees-with-set",
                format!("get_uuid_flag(set_uuid_flag({u}, {flag})) != {flag}"),
                json!({"uuid": u.to_string(), "flag": flag}),
            );
        }
        if uuid_to_partition_hash(Uuid::from_u128(r)) != uuid_to_partition_hash(u) {
            rep.violation(
                "C23:flag:changes-embedded-hash",
                format!("flag {flag} changed the embedded hash of {u}"),
                json!({"uuid": u.to_string(), "flag": flag}),
            );
        }
    }
    if get_uuid_flag(&u) != (v & FLAG_BIT != 0) {
        rep.violation(
            "C23:flag:get-reads-wrong-bit",
            format!("get_uuid_flag({u}) disagrees with bit 63"),
            json!({"uuid": u.to_string()}),
        );
    }
}

fn new_event(id: Uuid) -> NewEvent {
    NewEvent {
        event_id: id,
        stream_id: StreamId::new("s").unwrap(),
        stream_version: ExpectedVersion::Any,
        event_name: "E".into(),
        timestamp: 1,
        metadata: vec![],
        payload: vec![],
    }
}

fn check_hash(rep: &mut Report, rng: &mut Rng, h: u16, draws: u32) {
    for d in 0..draws {
        rep.evaluations += 1;
        let id = uuid_v7_with_partition_hash(h);
        let got = uuid_to_partition_hash(id);
        if got != h {
            rep.violation(
                "C23:id:hash-not-preserved",
                format!("uuid_v7_with_partition_hash({h}) = {id} yields hash {got}"),
                json!({"hash": h, "id": id.to_string()}),
            );
        }
        if !validate_event_id(id, h) {
            rep.violation(
                "C23:id:does-not-validate",
                format!("validate_event_id({id}, {h}) is false"),
                json!({"hash": h, "id": id.to_string()}),
            );
        }
        if d == 0 {
            // a partition key carrying the same hash: random UUID with the 16 hash bits forced
            let pk_bits = ((rng.next_u64() as u128) << 64 | rng.next_u64() as u128) & !(0xFFFFu128 << 46) | (h as u128) << 46;
            let pk = Uuid::from_u128(pk_bits);
            let p = 1 + rng.below(65_535) as u16;
            match Transaction::new(pk, h % p, smallvec![new_event(id)]) {
                Ok(t) => {
                    // the generated transaction id carries the single-event flag and nothing else changes
                    if !get_uuid_flag(&t.transaction_id()) {
                        rep.violation("C23:txn:single-event-flag-missing", "single-event transaction id lacks flag", json!({"hash": h}));
                    }
                }
                Err(e) => rep.violation(
                    "C23:id:rejected-by-transaction-new",
                    format!("Transaction::new rejects generated id {id} for key {pk} (hash {h}): {e}"),
                    json!({"hash": h, "id": id.to_string(), "partition_key": pk.to_string()}),
                ),
            }
            // wrong hash must be rejected
            let other = uuid_v7_with_partition_hash(h.wrapping_add(1 + rng.below(65_534) as u16));
            if Transaction::new(pk, h % p, smallvec![new_event(other)]).is_ok() {
                rep.violation(
                    "C23:id:foreign-hash-accepted",
                    format!("Transaction::new accepted id {other} for key {pk} (hash {h})"),
                    json!({"hash": h, "id": other.to_string()}),
                );
            }
        }
    }
}

fn record_for(pk: Uuid) -> EventRecord {
    EventRecord {
        offset: 0,
        event_id: uuid_v7_with_partition_hash(uuid_to_partition_hash(pk)),
        partition_key: pk,
        partition_id: 0,
        transaction_id: Uuid::nil(),
        partition_sequence: 0,
        stream_version: 0,
        timestamp: 0,
        confirmation_count: 0,
        stream_id: StreamId::new("s").unwrap(),
        event_name: String::new(),
        metadata: vec![],
        payload: vec![],
        size: 0,
    }
}

/// Routing agreement for one (hash, partitions, buckets).
fn check_routing(rep: &mut Report, h: u16, p: u16, b: u16) {
    rep.evaluations += 1;
    let pk = Uuid::from_u128((h as u128) << 46 | 0x1234_5678);
    let rec = record_for(pk);
    let pid_partition = h % p; // partition routing used by the cluster for a key
    let pid_event = uuid_to_partition_hash(rec.event_id) % p; // event-id routing (cluster read path)
    let pid_record = rec.primary_partition_id(p);
    if pid_partition != pid_event || pid_partition != pid_record {
        rep.violation(
            "C23:routing:partition-disagrees",
            format!("hash {h} P={p}: key->{pid_partition} event->{pid_event} record->{pid_record}"),
            json!({"hash": h, "partitions": p, "buckets": b}),
        );
    }
    let bucket_store = pid_partition % b; // Database::append_events / read_* rule
    let bucket_fn = partition_id_to_bucket(pid_partition, b);
    if bucket_store != bucket_fn {
        rep.violation(
            "C23:routing:partition_id_to_bucket-disagrees-with-store",
            format!("hash {h} P={p} B={b}: store bucket {bucket_store}, partition_id_to_bucket {bucket_fn}"),
            json!({"hash": h, "partitions": p, "buckets": b}),
        );
    }
    let bucket_event = extract_event_id_bucket(rec.event_id, b);
    if bucket_event != bucket_store {
        let divides = p % b == 0;
        let sig = if divides {
            "C23:routing:extract_event_id_bucket-disagrees:buckets-divide-partitions"
        } else {
            "C23:routing:extract_event_id_bucket-disagrees:buckets-do-not-divide-partitions"
        };
        rep.violation(
            sig,
            format!("hash {h} P={p} B={b}: event id routes to bucket {bucket_event}, its partition {pid_partition} lives in bucket {bucket_store}"),
            json!({"hash": h, "partitions": p, "buckets": b}),
        );
    }
    if p % b != 0 {
        rep.nontrivial(&("route", h % 64, p, b));
    }
}

pub fn run(args: &Args, rep: &mut Report) {
    vpc::quiet_panics();
    let mut rng = Rng::new(args.shard_seed());
    if let Some(w) = args.load_replay() {
        let w = &w["witness"];
        if let Some(u) = w["uuid"].as_str() {
            check_flag(rep, u.parse().unwrap());
        }
        if let (Some(h), Some(p), Some(b)) = (w["hash"].as_u64(), w["partitions"].as_u64(), w["buckets"].as_u64()) {
            check_routing(rep, h as u16, p as u16, b as u16);
        } else if let Some(h) = w["hash"].as_u64() {
            check_hash(rep, &mut rng, h as u16, 64);
        }
        return;
    }
    let thorough = args.tier.is_thorough();
    // under an interpreter (Miri) the same code paths with ~1/1000 of the inputs
    let small = args.opts.contains_key("small");
    // directed witness of the known routing disagreement (smallest case), so that
    // the KNOWN-FINDING line does not depend on sampling
    if args.shard == 0 {
        check_routing(rep, 10, 10, 4);
    }
    // (a) every hash owned by this shard
    let draws = if small { 1 } else if thorough { 64 } else { 4 };
    let mut h = args.shard as u32;
    while h <= 65_535 {
        check_hash(rep, &mut rng, h as u16, draws);
        rep.nontrivial(&("hash", h));
        h += if small { 997 * args.shards as u32 } else { args.shards as u32 };
    }
    rep.sample(json!({"kind": "id", "hash": 4242, "id": uuid_v7_with_partition_hash(4242).to_string()}));
    // (b) flag functions: zero, all-ones, every single-bit and two-bit pattern, random
    if args.shard == 0 && !small {
        check_flag(rep, Uuid::nil());
        check_flag(rep, Uuid::max());
        for i in 0..128 {
            check_flag(rep, Uuid::from_u128(1u128 << i));
            check_flag(rep, Uuid::from_u128(!(1u128 << i)));
            for j in (i + 1)..128 {
                check_flag(rep, Uuid::from_u128(1u128 << i | 1u128 << j));
                rep.nontrivial(&("flag2", i, j));
            }
        }
    }
    let n_rand = if small { 200 } else if thorough { 1 << 18 } else { 1 << 13 };
    for _ in 0..n_rand {
        let u = Uuid::from_u128((rng.next_u64() as u128) << 64 | rng.next_u64() as u128);
        check_flag(rep, u);
    }
    rep.sample(json!({"kind": "flag", "uuid": Uuid::from_u128(1u128 << 63).to_string(), "get": get_uuid_flag(&Uuid::from_u128(1u128 << 63))}));
    // (c) routing: exhaustive for partitions <= 64, buckets <= partitions, sampled hashes; then sampled large pairs
    let mut p = 1 + args.shard as u16;
    while p <= 64 {
        for b in 1..=p {
            if small && (b > 3 && b + 2 < p) { continue; }
            for k in 0..(if small { 9 } else if thorough { 256 } else { 24 }) {
                let h = if k < 8 { [0u16, 1, p - 1, p, b, 65_535, 32_768, p.wrapping_mul(b)][k] } else { rng.next_u32() as u16 };
                check_routing(rep, h, p, b);
            }
        }
        p += args.shards as u16;
    }
    for _ in 0..(if small { 100 } else if thorough { 100_000 } else { 4_000 }) {
        let p = 1 + rng.below(65_535) as u16;
        let b = 1 + rng.below(p as u64) as u16;
        check_routing(rep, rng.next_u32() as u16, p, b);
    }
    rep.sample(json!({"kind": "routing", "hash": 10, "partitions": 10, "buckets": 4,
        "store_bucket": (10u16 % 10) % 4, "extract_event_id_bucket": 10u16 % 4}));
}
