//! vp-pure: pure functions and the circuit breaker (C13 C14 C23 C24 C25 C26).
//! Every oracle here judges the output of the *shipped* function; nothing is
//! re-implemented except the independent oracles themselves.

mod c13;
mod c14;
mod c23;
mod c24;
mod c25;
mod c26;

use vpc::{Args, Report};

fn main() {
    let args = Args::parse();
    let mut rep = Report::new(&args.prop);
    match args.prop.as_str() {
        "C13" => c13::run(&args, &mut rep),
        "C14" => c14::run(&args, &mut rep),
        "C23" => c23::run(&args, &mut rep),
        "C24" => c24::run(&args, &mut rep),
        "C25" => c25::run(&args, &mut rep),
        "C26" => c26::run(&args, &mut rep),
        p => rep.inconclusive(format!("vp-pure does not serve {p}")),
    }
    rep.write(&args);
}
