//! C24 distribute_partition returns exactly min(rf, n, 12) distinct valid partitions.
//!
//! Refute: any (hash, n, rf) whose result has the wrong length, a duplicate, an
//! id >= n, a first element != hash % n, is not a prefix of the rf+1 result,
//! differs between two calls, or panics. The shipped function is executed on
//! every input; the oracle below never computes replicas itself.

use sierradb_topology::distribute_partition;
use vpc::{Args, Report, Rng, json};

const RF_MAIN: [u8; 5] = [1, 2, 3, 12, 255];

fn check_one(hash: u16, n: u16, rf: u8) -> Result<Vec<u16>, (String, String)> {
    let r = match std::panic::catch_unwind(|| distribute_partition(hash, n, rf)) {
        Ok(r) => r,
        Err(_) => return Err(("panic".into(), format!("panicked: {}", vpc::last_panic()))),
    };
    let want = (rf as usize).min(n as usize).min(12);
    if r.len() != want {
        return Err((
            "wrong-length".into(),
            format!("returned {} ids {:?}, expected {want}", r.len(), r.as_slice()),
        ));
    }
    if want == 0 {
        return Ok(vec![]);
    }
    if r[0] != hash % n {
        return Err(("first-not-primary".into(), format!("first {} != hash % n = {}", r[0], hash % n)));
    }
    for (i, a) in r.iter().enumerate() {
        if *a >= n {
            return Err(("id-out-of-range".into(), format!("id {a} >= n {n}")));
        }
        if r[..i].contains(a) {
            return Err(("duplicate".into(), format!("duplicate id {a} in {:?}", r.as_slice())));
        }
    }
    Ok(r.to_vec())
}

fn viol(rep: &mut Report, class: &str, what: String, hash: u16, n: u16, rf: u8) {
    // signature: symptom + overflow region (n above/below the u16 'current + jump' bound)
    let region = if n as u32 + (n as u32 / 2 + 2) > 65_535 { "n-high" } else { "n-low" };
    rep.violation(
        &format!("C24:{class}:{region}"),
        format!("distribute_partition({hash}, {n}, {rf}): {what}"),
        json!({"hash": hash, "n": n, "rf": rf, "what": what}),
    );
}

fn eval(rep: &mut Report, hash: u16, n: u16, rf: u8) -> Option<Vec<u16>> {
    rep.evaluations += 1;
    match check_one(hash, n, rf) {
        Ok(v) => Some(v),
        Err((class, what)) => {
            viol(rep, &class, what, hash, n, rf);
            None
        }
    }
}

fn prefix_rule(rep: &mut Report, hash: u16, n: u16) {
    // rf 0..=13 : result(rf) must be a prefix of result(rf+1); determinism by calling twice
    let mut prev: Option<Vec<u16>> = None;
    for rf in 0u8..=13 {
        let Some(cur) = eval(rep, hash, n, rf) else { return };
        if let Ok(again) = std::panic::catch_unwind(|| distribute_partition(hash, n, rf)) {
            rep.evaluations += 1;
            if again.as_slice() != cur.as_slice() {
                viol(rep, "nondeterministic", format!("{cur:?} then {:?}", again.as_slice()), hash, n, rf);
            }
        }
        if let Some(p) = &prev {
            if cur.len() < p.len() || &cur[..p.len()] != p.as_slice() {
                viol(rep, "not-prefix", format!("rf-1 gave {p:?}, rf gave {cur:?}"), hash, n, rf);
            }
        }
        prev = Some(cur);
    }
}

pub fn run(args: &Args, rep: &mut Report) {
    vpc::quiet_panics();
    if let Some(w) = args.load_replay() {
        let w = &w["witness"];
        let (h, n, rf) = (w["hash"].as_u64().unwrap() as u16, w["n"].as_u64().unwrap() as u16, w["rf"].as_u64().unwrap() as u8);
        eval(rep, h, n, rf);
        prefix_rule(rep, h, n);
        return;
    }
    let mut rng = Rng::new(args.shard_seed());
    let thorough = args.tier.is_thorough();
    // n values are split across shards: shard i takes n with n % shards == i.
    let mut nontrivial = 0u64;
    let mut n = args.shard as u32;
    while n <= 65_535 {
        let nn = n as u16;
        if thorough {
            // the entire hash space for the main replication factors
            for rf in RF_MAIN {
                for h in 0..=65_535u16 {
                    eval(rep, h, nn, rf);
                }
                if nn >= 3 && rf >= 2 {
                    nontrivial += 65_536;
                }
            }
            for _ in 0..24 {
                prefix_rule(rep, rng.next_u32() as u16, nn);
            }
        } else {
            let mut hs: Vec<u16> = vec![0, 1, nn.wrapping_sub(1), nn, (nn as u32 * 2).wrapping_sub(1) as u16, 32_767, 32_768, 65_535];
            for _ in 0..4 {
                hs.push(rng.next_u32() as u16);
            }
            hs.sort();
            hs.dedup();
            for rf in RF_MAIN {
                for &h in &hs {
                    eval(rep, h, nn, rf);
                }
                if nn >= 3 && rf >= 2 {
                    nontrivial += hs.len() as u64;
                }
            }
            if n % 8 == (args.shard as u32 % 8) || nn > 43_000 {
                prefix_rule(rep, hs[rng.usize_below(hs.len())], nn);
            }
        }
        if rep.want_sample() && n > 2 {
            let h = rng.next_u32() as u16;
            if let Ok(v) = check_one(h, nn, 3) {
                rep.sample(json!({"hash": h, "n": nn, "rf": 3, "result": v}));
            }
        }
        n += args.shards as u32;
    }
    // (hash, n, rf) triples are enumerated without repetition across shards, so the
    // non-trivial ones (n >= 3 and rf >= 2: the jump path runs) are distinct by construction.
    rep.nontrivial_distinct_by_construction(nontrivial);
    rep.count("n_values", (65_536 - args.shard).div_ceil(args.shards));
}
