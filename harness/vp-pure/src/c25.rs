//! C25 Expected-version algebra matches the store and round-trips.

use std::str::FromStr;

use sierradb::StreamId;
use sierradb::database::{DatabaseBuilder, NewEvent, Transaction};
use sierradb::id::{uuid_to_partition_hash, uuid_v7_with_partition_hash};
use sierradb_protocol::{CurrentVersion, ExpectedVersion, VersionGap};
use smallvec::smallvec;
use uuid::Uuid;
use vpc::{Args, Report, Rng, json};

fn boundary_values() -> Vec<u64> {
    let mut v = vec![0u64, 1, 2, 3, 7];
    for p in [31u32, 32, 62, 63] {
        let x = 1u64 << p;
        v.extend([x - 1, x, x + 1]);
    }
    v.extend([u64::MAX - 2, u64::MAX - 1, u64::MAX]);
    v
}

fn ev_name(e: ExpectedVersion) -> String {
    format!("{e:?}")
}

/// Independent oracle: versions as positions on the integer line, Empty = -1.
fn oracle_gap(e: ExpectedVersion, c: CurrentVersion) -> (&'static str, i128) {
    let cur: i128 = match c {
        CurrentVersion::Empty => -1,
        CurrentVersion::Current(n) => n as i128,
    };
    match e {
        ExpectedVersion::Any => ("none", 0),
        ExpectedVersion::Exists => {
            if cur < 0 { ("incompatible", 0) } else { ("none", 0) }
        }
        ExpectedVersion::Empty => {
            if cur < 0 { ("none", 0) } else { ("ahead", cur + 1) }
        }
        ExpectedVersion::Exact(x) => {
            let d = x as i128 - cur;
            if d == 0 { ("none", 0) } else if d > 0 { ("behind", d) } else { ("ahead", -d) }
        }
    }
}

fn check_pair(rep: &mut Report, e: ExpectedVersion, c: CurrentVersion) {
    rep.evaluations += 1;
    let got = match std::panic::catch_unwind(|| e.gap_from(c)) {
        Ok(g) => g,
        Err(_) => {
            rep.violation(
                "C25:gap_from:panic",
                format!("{}.gap_from({c:?}) panicked: {}", ev_name(e), vpc::last_panic()),
                json!({"expected": ev_name(e), "current": format!("{c:?}")}),
            );
            return;
        }
    };
    let (kind, dist) = oracle_gap(e, c);
    let ok = match (kind, got) {
        ("none", VersionGap::None) => true,
        ("incompatible", VersionGap::Incompatible) => true,
        // a distance of 2^64 is not representable: the saturated value is accepted there
        ("ahead", VersionGap::Ahead(n)) => n as i128 == dist || (dist > u64::MAX as i128 && n == u64::MAX),
        ("behind", VersionGap::Behind(n)) => n as i128 == dist || (dist > u64::MAX as i128 && n == u64::MAX),
        _ => false,
    };
    if !ok {
        rep.violation(
            "C25:gap_from:wrong-distance",
            format!("{}.gap_from({c:?}) = {got:?}, oracle says {kind} {dist}", ev_name(e)),
            json!({"expected": ev_name(e), "current": format!("{c:?}")}),
        );
    }
    let sat = std::panic::catch_unwind(|| e.is_satisfied_by(c));
    match sat {
        Ok(s) if s == (kind == "none") => {}
        Ok(s) => rep.violation(
            "C25:is_satisfied_by:disagrees-with-oracle",
            format!("{}.is_satisfied_by({c:?}) = {s}", ev_name(e)),
            json!({"expected": ev_name(e), "current": format!("{c:?}")}),
        ),
        Err(_) => rep.violation(
            "C25:is_satisfied_by:panic",
            format!("{}.is_satisfied_by({c:?}) panicked: {}", ev_name(e), vpc::last_panic()),
            json!({"expected": ev_name(e), "current": format!("{c:?}")}),
        ),
    }
    if dist >= (1i128 << 63) || matches!(e, ExpectedVersion::Exact(u64::MAX)) {
        rep.nontrivial(&("boundary", ev_name(e), format!("{c:?}")));
    }
}

fn check_roundtrips(rep: &mut Report, v: u64) {
    rep.evaluations += 1;
    for e in [ExpectedVersion::Any, ExpectedVersion::Exists, ExpectedVersion::Empty, ExpectedVersion::Exact(v)] {
        let s = e.to_string();
        match ExpectedVersion::from_str(&s) {
            Ok(back) if back == e => {}
            other => rep.violation(
                "C25:display-parse:not-inverse",
                format!("{e:?} displays as {s:?}, parses back as {other:?}"),
                json!({"v": v}),
            ),
        }
    }
    for c in [CurrentVersion::Empty, CurrentVersion::Current(v)] {
        let s = c.to_string();
        match CurrentVersion::from_str(&s) {
            Ok(back) if back == c => {}
            other => rep.violation(
                "C25:display-parse:current-not-inverse",
                format!("{c:?} displays as {s:?}, parses back as {other:?}"),
                json!({"v": v}),
            ),
        }
        if c.as_expected_version().is_satisfied_by(c) != true {
            rep.violation("C25:as_expected_version:not-satisfied", format!("{c:?}"), json!({"v": v}));
        }
    }
    // from_next_version -> into_next_version
    let e = ExpectedVersion::from_next_version(v);
    match std::panic::catch_unwind(|| e.into_next_version()) {
        Ok(Some(back)) if back == v => {}
        other => rep.violation(
            "C25:next-version:not-inverse",
            format!("from_next_version({v}) = {e:?}, into_next_version gives {other:?}"),
            json!({"v": v}),
        ),
    }
    // into_next_version -> from_next_version on Empty / Exact(v < MAX)
    for e in [ExpectedVersion::Empty, ExpectedVersion::Exact(v)] {
        match std::panic::catch_unwind(|| e.into_next_version()) {
            Ok(Some(n)) => {
                if ExpectedVersion::from_next_version(n) != e {
                    rep.violation("C25:next-version:not-inverse-2", format!("{e:?} -> {n} -> {:?}", ExpectedVersion::from_next_version(n)), json!({"v": v}));
                }
            }
            Ok(None) => {
                if e != ExpectedVersion::Exact(u64::MAX) {
                    rep.violation("C25:next-version:none-inside-domain", format!("{e:?}.into_next_version() = None"), json!({"v": v}));
                }
            }
            Err(_) => rep.violation("C25:next-version:panic", format!("{e:?}.into_next_version() panicked"), json!({"v": v})),
        }
    }
    // CurrentVersion::next is the successor position, where representable
    if v < u64::MAX {
        if CurrentVersion::Current(v).next() != v + 1 || CurrentVersion::Empty.next() != 0 {
            rep.violation("C25:current-next:wrong", format!("Current({v}).next()"), json!({"v": v}));
        }
    }
}

/// Store comparison: realisable current versions (Empty, 0..=5) for stream
/// versions and for partition sequences against a real Database.
fn store_compare(args: &Args, rep: &mut Report, rng: &mut Rng, rounds: usize) {
    let rt = tokio::runtime::Builder::new_current_thread().enable_all().build().unwrap();
    let dir = args.work.join(format!("c25-{}", args.shard));
    let _ = std::fs::remove_dir_all(&dir);
    let db = DatabaseBuilder::new()
        .segment_size_bytes(256 * 1024)
        .total_buckets(2)
        .bucket_ids_from_range(0..2)
        .writer_threads(1)
        .reader_threads(2)
        .sync_interval(std::time::Duration::from_millis(1))
        .min_sync_bytes(1)
        .open(&dir)
        .expect("open db");
    let mut counter = 0u64;
    rt.block_on(async {
        for round in 0..rounds {
            for cur_len in 0u64..=6 {
                // a fresh stream + fresh partition key per probe, filled to cur_len events
                let exps: Vec<ExpectedVersion> = {
                    let mut v = vec![ExpectedVersion::Any, ExpectedVersion::Exists, ExpectedVersion::Empty];
                    for x in 0..=7u64 {
                        v.push(ExpectedVersion::Exact(x));
                    }
                    v.push(ExpectedVersion::Exact(u64::MAX));
                    v.push(ExpectedVersion::Exact(1 << 63));
                    v
                };
                for e in exps {
                    for on_partition in [false, true] {
                        counter += 1;
                        // one fresh partition per probe so the partition sequence equals the stream version
                        let want_hash = ((args.shard * 4001 + counter) % 65_535) as u16;
                        let pk = Uuid::from_u128(((rng.next_u64() as u128) << 64 | rng.next_u64() as u128) & !(0xFFFFu128 << 46) | (want_hash as u128) << 46);
                        let hash = uuid_to_partition_hash(pk);
                        let pid = hash % 65_535;
                        let sid = StreamId::new(format!("c25-{}-{}-{}", args.shard, round, counter)).unwrap();
                        let mk = |sv: ExpectedVersion| NewEvent {
                            event_id: uuid_v7_with_partition_hash(hash),
                            stream_id: sid.clone(),
                            stream_version: sv,
                            event_name: "E".into(),
                            timestamp: 1,
                            metadata: vec![],
                            payload: vec![1, 2, 3],
                        };
                        // skip probes whose partition is not fresh (another probe hashed there)
                        if db.get_partition_sequence(pid).await.unwrap().is_some() {
                            continue;
                        }
                        let mut okfill = true;
                        for _ in 0..cur_len {
                            let t = Transaction::new(pk, pid, smallvec![mk(ExpectedVersion::Any)]).unwrap();
                            if db.append_events(t).await.is_err() {
                                okfill = false;
                            }
                        }
                        if !okfill {
                            rep.inconclusive("C25 store fill failed");
                            continue;
                        }
                        let current = if cur_len == 0 { CurrentVersion::Empty } else { CurrentVersion::Current(cur_len - 1) };
                        let t = if on_partition {
                            Transaction::new(pk, pid, smallvec![mk(ExpectedVersion::Any)]).unwrap().expected_partition_sequence(e)
                        } else {
                            Transaction::new(pk, pid, smallvec![mk(e)]).unwrap()
                        };
                        let accepted = db.append_events(t).await.is_ok();
                        // a panic here is reported by the grid checks (C25:is_satisfied_by:panic)
                        let Ok(algebra) = std::panic::catch_unwind(|| e.is_satisfied_by(current)) else { continue };
                        rep.evaluations += 1;
                        rep.nontrivial(&("store", on_partition, ev_name(e), cur_len));
                        if accepted != algebra {
                            let which = if on_partition { "partition-sequence" } else { "stream-version" };
                            rep.violation(
                                &format!("C25:store-vs-algebra:{which}"),
                                format!("{which}: expected {e:?} on current {current:?}: store accepted={accepted}, is_satisfied_by={algebra}"),
                                json!({"expected": ev_name(e), "current_len": cur_len, "on_partition": on_partition}),
                            );
                        }
                        if rep.want_sample() && cur_len == 3 {
                            rep.sample(json!({"kind": "store", "expected": ev_name(e), "current": format!("{current:?}"), "on_partition_sequence": on_partition, "accepted": accepted, "is_satisfied_by": algebra}));
                        }
                    }
                }
            }
        }
        db.shutdown().await;
    });
    let _ = std::fs::remove_dir_all(&dir);
    aged_store_compare(args, rep, rng);
}

/// The same comparison for streams whose current version has to be found in sealed segments: three streams are
/// written across two or more 128 KiB segments, then a filler stream rolls the segment over once more, so none of
/// them has an event in the live segment when the probes arrive.
fn aged_store_compare(args: &Args, rep: &mut Report, rng: &mut Rng) {
    let rt = tokio::runtime::Builder::new_current_thread().enable_all().build().unwrap();
    let dir = args.work.join(format!("c25-aged-{}", args.shard));
    let _ = std::fs::remove_dir_all(&dir);
    let db = DatabaseBuilder::new()
        .segment_size_bytes(128 * 1024)
        .total_buckets(1)
        .bucket_ids_from_range(0..1)
        .writer_threads(1)
        .reader_threads(2)
        .sync_interval(std::time::Duration::from_millis(1))
        .min_sync_bytes(1)
        .compression(false)
        .open(&dir)
        .expect("open db");
    let pk = Uuid::from_u128((rng.next_u64() as u128) << 64 | rng.next_u64() as u128);
    let hash = uuid_to_partition_hash(pk);
    let pid = hash % 4;
    let mk = |name: &str, sv: ExpectedVersion, size: usize| NewEvent {
        event_id: uuid_v7_with_partition_hash(hash),
        stream_id: StreamId::new(name.to_string()).unwrap(),
        stream_version: sv,
        event_name: "E".into(),
        timestamp: 1,
        metadata: vec![],
        payload: (0..size).map(|k| (k as u64).wrapping_mul(0x9E37_79B9_7F4A_7C15).rotate_left((k % 61) as u32) as u8 ^ (k >> 3) as u8).collect(),
    };
    rt.block_on(async {
        let per_stream = 24u64;
        for i in 0..(3 * per_stream) {
            let t = Transaction::new(pk, pid, smallvec![mk(&format!("aged-{}", i % 3), ExpectedVersion::Any, 3500)]).unwrap();
            if db.append_events(t).await.is_err() { rep.inconclusive("C25 aged fill failed"); return; }
        }
        for _ in 0..45 {
            let t = Transaction::new(pk, pid, smallvec![mk("filler", ExpectedVersion::Any, 3500)]).unwrap();
            if db.append_events(t).await.is_err() { rep.inconclusive("C25 aged fill failed"); return; }
        }
        let cur = per_stream - 1;
        let accepting = [ExpectedVersion::Exact(cur), ExpectedVersion::Exists, ExpectedVersion::Any];
        for (i, last) in accepting.iter().enumerate() {
            let name = format!("aged-{i}");
            let mut probes = vec![ExpectedVersion::Exact(cur - 1), ExpectedVersion::Exact(cur + 1), ExpectedVersion::Exact(cur / 2), ExpectedVersion::Exact(0), ExpectedVersion::Empty, ExpectedVersion::Exact(u64::MAX)];
            probes.push(*last);
            for e in probes {
                let accepted = db.append_events(Transaction::new(pk, pid, smallvec![mk(&name, e, 3)]).unwrap()).await.is_ok();
                let Ok(algebra) = std::panic::catch_unwind(|| e.is_satisfied_by(CurrentVersion::Current(cur))) else { continue };
                rep.evaluations += 1;
                rep.count("store_probes_on_streams_living_in_sealed_segments_only", 1);
                rep.nontrivial(&("aged-store", ev_name(e)));
                if accepted != algebra {
                    rep.violation(
                        "C25:store-vs-algebra:stream-version:stream-in-sealed-segments-only",
                        format!("stream {name} has versions 0..={cur} in sealed segments and none in the live one: expected {e:?}: store accepted={accepted}, is_satisfied_by(Current({cur}))={algebra}"),
                        json!({"expected": ev_name(e), "current": cur, "aged": true}),
                    );
                }
            }
        }
        db.shutdown().await;
    });
    let _ = std::fs::remove_dir_all(&dir);
}

pub fn run(args: &Args, rep: &mut Report) {
    vpc::quiet_panics();
    let mut rng = Rng::new(args.shard_seed());
    let thorough = args.tier.is_thorough();
    let b: Vec<u64> = if args.opts.contains_key("small") { boundary_values().into_iter().step_by(3).collect() } else { boundary_values() };
    if args.replay.is_some() {
        // witnesses are (expected, current) pairs from the boundary grid: re-run the grid
    }
    let exps = |v: u64| [ExpectedVersion::Any, ExpectedVersion::Exists, ExpectedVersion::Empty, ExpectedVersion::Exact(v)];
    if args.shard == 0 || args.replay.is_some() {
        for &x in &b {
            for &y in &b {
                for e in exps(x) {
                    check_pair(rep, e, CurrentVersion::Empty);
                    check_pair(rep, e, CurrentVersion::Current(y));
                }
            }
            check_roundtrips(rep, x);
        }
        rep.sample(json!({"kind": "gap", "expected": "Exact(5)", "current": "Current(3)", "gap": format!("{:?}", ExpectedVersion::Exact(5).gap_from(CurrentVersion::Current(3)))}));
    }
    if args.replay.is_some() {
        return;
    }
    let small = args.opts.contains_key("small"); // interpreter (Miri) run: same paths, few inputs, no store
    let n = if small { 300 } else if thorough { 1_000_000 } else { 100_000 };
    for _ in 0..n {
        // random pairs, biased to small differences and to the edges
        let x = match rng.below(4) { 0 => rng.next_u64(), 1 => rng.below(16), 2 => u64::MAX - rng.below(16), _ => *rng.pick(&b) };
        let y = match rng.below(4) { 0 => rng.next_u64(), 1 => x.wrapping_add(rng.below(5)).wrapping_sub(2), 2 => u64::MAX - rng.below(16), _ => *rng.pick(&b) };
        for e in exps(x) {
            check_pair(rep, e, CurrentVersion::Current(y));
        }
        check_pair(rep, ExpectedVersion::Exact(x), CurrentVersion::Empty);
        check_roundtrips(rep, x);
    }
    if !small {
        store_compare(args, rep, &mut rng, if thorough { 6 } else { 1 });
    }
}
