use vpc::{Args, Report}; pub fn run(_a:&Args,_r:&mut Report){}
