//! C26 The write circuit breaker is panic-free and bounds half-open probes.
//!
//! 1-3 real threads run seeded op lists over the four public methods of the real
//! `WriteCircuitBreaker`. Hook H6 gives (a) a harness clock and (b) yield points
//! inside the breaker; a seeded token scheduler decides which thread continues at
//! every yield point, so every interleaving at yield-point granularity is
//! reachable and replayable from the seed. An online monitor samples
//! `current_state()` at every scheduling event.

use std::cell::RefCell;
use std::sync::{Arc, Condvar, Mutex};
use std::time::Duration;

use sierradb_cluster::circuit_breaker::{CircuitState, WriteCircuitBreaker};
use vpc::{Args, Report, Rng, json};

#[derive(Clone, Copy, Debug, PartialEq, Eq, Hash)]
enum Op {
    Allow,
    Success,
    Failure,
    Recovery,
}

#[derive(Clone, Debug)]
struct Cfg {
    threshold: u32,
    timeout_ms: u64,
    max_calls: u32,
    success_threshold: u32,
    threads: usize,
    ops: Vec<Vec<Op>>,
}

#[derive(Debug)]
struct OpRec {
    kind: Op,
    start: u64,
    end: Option<u64>,
}

struct Inner {
    cur: usize,
    alive: Vec<bool>,
    started: Vec<bool>,
    rng: Rng,
    clock: u64,
    step: u64,
    last_state: CircuitState,
    ops: Vec<OpRec>,
    open_op: Vec<Option<usize>>,   // per thread: index into ops of the op in flight
    in_open_branch: Vec<bool>,     // per thread: paused inside the Open branch of should_allow_request
    transitioned: Vec<bool>,       // per thread: current op went through transition_to_half_open
    episode: Option<(u64, u32)>,   // (episode id, admitted probes)
    episodes: u64,
    max_admitted: u32,
    fingerprint: u64,
    trace: Vec<String>,
    violations: Vec<(String, String)>,
    overlap_open_branch: bool,
    failure_between_reads: bool,
    clock_read_pending: Vec<bool>,
}

struct Sched {
    inner: Mutex<Inner>,
    cv: Condvar,
    cb: WriteCircuitBreaker,
    cfg: Cfg,
}

thread_local! {
    static CURRENT: RefCell<Option<(Arc<Sched>, usize)>> = const { RefCell::new(None) };
}

fn state_name(s: CircuitState) -> &'static str {
    match s {
        CircuitState::Closed => "C",
        CircuitState::Open => "O",
        CircuitState::HalfOpen => "H",
    }
}

impl Sched {
    /// Monitor: called with the lock held at every scheduling event.
    fn sample(&self, g: &mut Inner, why: &str) {
        g.step += 1;
        let now = self.cb.current_state();
        let last = g.last_state;
        if now != last {
            g.trace.push(format!("{}:{}->{} ({why})", g.step, state_name(last), state_name(now)));
            if last == CircuitState::Closed && now == CircuitState::Open {
                // sound necessary condition under overlap: at least `threshold` failures
                // that can be ordered after the last completed success
                let t_s = g.ops.iter().filter(|o| o.kind == Op::Success && o.end.is_some()).map(|o| o.start).max().unwrap_or(0);
                let fails = g.ops.iter().filter(|o| o.kind == Op::Failure && o.end.map(|e| e >= t_s).unwrap_or(true)).count() as u32;
                if fails < self.cfg.threshold {
                    g.violations.push((
                        "C26:opened-before-threshold".into(),
                        format!("breaker went Closed->Open at step {} with only {fails} failures after the last completed success (threshold {})", g.step, self.cfg.threshold),
                    ));
                }
            }
            if last == CircuitState::HalfOpen {
                g.episode = None;
            }
            if now == CircuitState::HalfOpen {
                g.episodes += 1;
                g.episode = Some((g.episodes, 0));
            }
            g.last_state = now;
        }
    }

    fn admit(&self, g: &mut Inner, t: usize, how: &str) {
        if let Some((id, n)) = g.episode.as_mut() {
            *n += 1;
            let (id, n) = (*id, *n);
            g.max_admitted = g.max_admitted.max(n);
            g.trace.push(format!("{}:t{t} admitted #{n} in episode {id} ({how})", g.step));
            if n > self.cfg.max_calls {
                let class = if n == self.cfg.max_calls + 1 && !g.overlap_open_branch { "by-one-uncounted-transition-call" } else { "racing-transitions" };
                g.violations.push((
                    format!("C26:half-open-probes-exceed-max:{class}"),
                    format!("half-open episode {id} admitted {n} probes, half_open_max_calls = {}", self.cfg.max_calls),
                ));
            }
        }
    }

    fn pick_next(&self, g: &mut Inner) {
        let alive: Vec<usize> = (0..g.alive.len()).filter(|i| g.alive[*i]).collect();
        if alive.is_empty() {
            return;
        }
        // the clock advances between scheduling events
        if g.rng.chance(1, 3) {
            let t = self.cfg.timeout_ms;
            let d = *g.rng.pick(&[0, 1, t / 2, t, t + 1, 2 * t]);
            g.clock += d;
        }
        let next = alive[g.rng.usize_below(alive.len())];
        g.fingerprint = g.fingerprint.wrapping_mul(0x100000001B3) ^ (next as u64 + 1);
        g.cur = next;
    }

    fn yield_point(self: &Arc<Self>, t: usize, name: &'static str) {
        let mut g = self.inner.lock().unwrap();
        self.sample(&mut g, name);
        match name {
            "cb.allow.after_clock" | "cb.recovery.after_clock" => {
                g.in_open_branch[t] = name == "cb.allow.after_clock";
                g.clock_read_pending[t] = true;
                if (0..g.alive.len()).any(|o| o != t && g.in_open_branch[o]) {
                    g.overlap_open_branch = true;
                }
            }
            "cb.half_open.enter" => {
                g.transitioned[t] = true;
            }
            _ => {}
        }
        g.fingerprint = g.fingerprint.wrapping_mul(0x100000001B3) ^ vpc::hash_of(name);
        self.pick_next(&mut g);
        self.cv.notify_all();
        while g.cur != t {
            g = self.cv.wait(g).unwrap();
        }
        g.clock_read_pending[t] = false;
    }

    fn op_start(self: &Arc<Self>, t: usize, kind: Op) {
        let mut g = self.inner.lock().unwrap();
        self.sample(&mut g, "op-start");
        let start = g.step;
        g.ops.push(OpRec { kind, start, end: None });
        let idx = g.ops.len() - 1;
        g.open_op[t] = Some(idx);
        g.transitioned[t] = false;
        if kind == Op::Failure && (0..g.alive.len()).any(|o| o != t && g.clock_read_pending[o]) {
            g.failure_between_reads = true;
        }
    }

    fn op_end(self: &Arc<Self>, t: usize, kind: Op, allowed: Option<bool>) {
        let mut g = self.inner.lock().unwrap();
        self.sample(&mut g, "op-end");
        let step = g.step;
        if let Some(i) = g.open_op[t].take() {
            g.ops[i].end = Some(step);
        }
        g.in_open_branch[t] = false;
        if kind == Op::Allow && allowed == Some(true) {
            // The tail of every call (from its last yield point to its return) runs without
            // interruption under the token scheduler, so the state visible now is the state
            // the call was admitted in. Admissions in Closed state are not probes.
            if self.cb.current_state() == CircuitState::HalfOpen {
                let how = if g.transitioned[t] { "call went through the Open->HalfOpen transition" } else { "half-open branch" };
                self.admit(&mut g, t, how);
            }
        }
        // hand the token on between operations too
        self.pick_next(&mut g);
        self.cv.notify_all();
        while g.cur != t {
            g = self.cv.wait(g).unwrap();
        }
    }

    fn finish(self: &Arc<Self>, t: usize) {
        let mut g = self.inner.lock().unwrap();
        g.alive[t] = false;
        g.in_open_branch[t] = false;
        g.clock_read_pending[t] = false;
        self.pick_next(&mut g);
        self.cv.notify_all();
    }

    fn clock(&self) -> u64 {
        self.inner.lock().unwrap().clock
    }
}

pub fn install_hooks() {
    sierradb_cluster::verif::install(Box::new(|name, _| {
        let cur = CURRENT.with(|c| c.borrow().clone());
        if let Some((s, t)) = cur {
            s.yield_point(t, name);
        }
    }));
    sierradb_cluster::verif::install_clock(Box::new(|| {
        let cur = CURRENT.with(|c| c.borrow().clone());
        cur.map(|(s, _)| s.clock())
    }));
}

fn gen_cfg(rng: &mut Rng) -> Cfg {
    let threads = 1 + rng.usize_below(3);
    let n_ops = 4 + rng.usize_below(20);
    let ops = (0..threads)
        .map(|_| {
            (0..n_ops)
                .map(|_| match rng.below(10) {
                    0..=3 => Op::Allow,
                    4..=5 => Op::Success,
                    6..=8 => Op::Failure,
                    _ => Op::Recovery,
                })
                .collect()
        })
        .collect();
    Cfg {
        threshold: 1 + rng.below(4) as u32,
        timeout_ms: *rng.pick(&[0u64, 1, 5, 50]),
        max_calls: 1 + rng.below(3) as u32,
        success_threshold: 1 + rng.below(3) as u32,
        threads,
        ops,
    }
}

struct Outcome {
    violations: Vec<(String, String)>,
    trace: Vec<String>,
    fingerprint: u64,
    nontrivial: bool,
    episodes: u64,
    max_admitted: u32,
    overlap: bool,
    failure_between: bool,
}

fn run_schedule(cfg: &Cfg, sched_seed: u64) -> Outcome {
    // the constructor reads the clock: give the main thread a context too
    let boot = Arc::new(Sched {
        inner: Mutex::new(Inner {
            cur: usize::MAX,
            alive: vec![true; cfg.threads],
            started: vec![false; cfg.threads],
            rng: Rng::new(sched_seed),
            clock: 1_000_000,
            step: 0,
            last_state: CircuitState::Closed,
            ops: Vec::new(),
            open_op: vec![None; cfg.threads],
            in_open_branch: vec![false; cfg.threads],
            transitioned: vec![false; cfg.threads],
            episode: None,
            episodes: 0,
            max_admitted: 0,
            fingerprint: 0xcbf29ce484222325,
            trace: Vec::new(),
            violations: Vec::new(),
            overlap_open_branch: false,
            failure_between_reads: false,
            clock_read_pending: vec![false; cfg.threads],
        }),
        cv: Condvar::new(),
        cb: WriteCircuitBreaker::new(cfg.threshold, Duration::from_millis(cfg.timeout_ms), cfg.max_calls, cfg.success_threshold),
        cfg: cfg.clone(),
    });
    let sched = boot;
    {
        let mut g = sched.inner.lock().unwrap();
        sched.pick_next(&mut g);
    }
    let mut handles = Vec::new();
    for t in 0..cfg.threads {
        let s = sched.clone();
        let ops = cfg.ops[t].clone();
        handles.push(std::thread::spawn(move || {
            CURRENT.with(|c| *c.borrow_mut() = Some((s.clone(), t)));
            {
                let mut g = s.inner.lock().unwrap();
                g.started[t] = true;
                while g.cur != t {
                    g = s.cv.wait(g).unwrap();
                }
            }
            let res = std::panic::catch_unwind(std::panic::AssertUnwindSafe(|| {
                for op in ops {
                    s.op_start(t, op);
                    let allowed = match op {
                        Op::Allow => Some(s.cb.should_allow_request()),
                        Op::Success => { s.cb.record_success(); None }
                        Op::Failure => { s.cb.record_failure(); None }
                        Op::Recovery => { let _ = s.cb.estimated_recovery_time(); None }
                    };
                    s.op_end(t, op, allowed);
                }
            }));
            if res.is_err() {
                let mut g = s.inner.lock().unwrap();
                let which = g.open_op[t].map(|i| format!("{:?}", g.ops[i].kind)).unwrap_or_default();
                let site = vpc::last_panic();
                let class = if site.contains("subtract with overflow") { "subtract-overflow" } else { "other" };
                g.violations.push((format!("C26:panic:{class}"), format!("panic in {which}: {site}")));
            }
            CURRENT.with(|c| *c.borrow_mut() = None);
            s.finish(t);
        }));
    }
    for h in handles {
        let _ = h.join();
    }
    let g = sched.inner.lock().unwrap();
    Outcome {
        violations: g.violations.clone(),
        trace: g.trace.clone(),
        fingerprint: g.fingerprint,
        nontrivial: g.overlap_open_branch || g.failure_between_reads,
        episodes: g.episodes,
        max_admitted: g.max_admitted,
        overlap: g.overlap_open_branch,
        failure_between: g.failure_between_reads,
    }
}

fn cfg_json(c: &Cfg) -> vpc::Value {
    json!({"failure_threshold": c.threshold, "recovery_timeout_ms": c.timeout_ms, "half_open_max_calls": c.max_calls,
           "half_open_success_threshold": c.success_threshold, "threads": c.threads,
           "ops": c.ops.iter().map(|v| v.iter().map(|o| format!("{o:?}")).collect::<Vec<_>>()).collect::<Vec<_>>()})
}

fn run_case(rep: &mut Report, case_seed: u64) {
    let mut rng = Rng::new(case_seed);
    let cfg = gen_cfg(&mut rng);
    let sched_seed = rng.next_u64();
    let out = run_schedule(&cfg, sched_seed);
    rep.evaluations += 1;
    rep.count("half_open_episodes", out.episodes);
    rep.max("probes_admitted_in_one_episode", out.max_admitted as u64);
    if out.overlap { rep.count("schedules_two_threads_in_open_branch", 1); }
    if out.failure_between { rep.count("schedules_failure_between_clock_read_and_load", 1); }
    if out.nontrivial {
        rep.nontrivial(&out.fingerprint);
    }
    for (sig, what) in &out.violations {
        rep.violation(sig, what.clone(), json!({"case_seed": case_seed, "config": cfg_json(&cfg), "state_trace": out.trace.iter().take(60).collect::<Vec<_>>()}));
    }
    if rep.want_sample() && out.episodes > 0 {
        rep.sample(json!({"case_seed": case_seed, "config": cfg_json(&cfg), "state_trace": out.trace.iter().take(12).collect::<Vec<_>>()}));
    }
}

/// Free-running stress on the real clock (no token scheduler): panic monitor only.
fn stress(rep: &mut Report, seed: u64, millis: u64) {
    let cb = Arc::new(WriteCircuitBreaker::new(2, Duration::from_millis(1), 2, 1));
    let stop = Arc::new(std::sync::atomic::AtomicBool::new(false));
    let mut hs = Vec::new();
    for t in 0..3u64 {
        let cb = cb.clone();
        let stop = stop.clone();
        hs.push(std::thread::spawn(move || {
            let mut rng = Rng::new(seed ^ t);
            let mut n = 0u64;
            let r = std::panic::catch_unwind(std::panic::AssertUnwindSafe(|| {
                while !stop.load(std::sync::atomic::Ordering::Relaxed) {
                    match rng.below(4) {
                        0 => { cb.should_allow_request(); }
                        1 => cb.record_success(),
                        2 => cb.record_failure(),
                        _ => { cb.estimated_recovery_time(); }
                    }
                    n += 1;
                }
            }));
            (n, r.is_err())
        }));
    }
    std::thread::sleep(Duration::from_millis(millis));
    stop.store(true, std::sync::atomic::Ordering::Relaxed);
    for h in hs {
        let (n, panicked) = h.join().unwrap();
        rep.count("stress_ops", n);
        if panicked {
            let site = vpc::last_panic();
            let class = if site.contains("subtract with overflow") { "subtract-overflow" } else { "other" };
            rep.violation(&format!("C26:panic:{class}"), format!("free-running stress: {site}"), json!({"mode": "stress", "seed": seed}));
        }
    }
}

pub fn run(args: &Args, rep: &mut Report) {
    vpc::quiet_panics();
    install_hooks();
    if let Some(w) = args.load_replay() {
        if let Some(cs) = w["witness"]["case_seed"].as_u64() {
            run_case(rep, cs);
        }
        return;
    }
    let thorough = args.tier.is_thorough();
    let max_cases = if thorough { u64::MAX } else { 20_000 };
    let mut case = 0u64;
    while args.time_left() && case < max_cases {
        case += 1;
        run_case(rep, args.case_seed(case));
    }
    stress(rep, args.shard_seed(), if thorough { 3000 } else { 300 });
}
