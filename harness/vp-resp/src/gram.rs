//! Role-annotated token lists for the documented command grammar (README.md and
//! the doc comments of crates/sierradb-server/src/request/*.rs).
//!
//! A case is a list of tokens; every token carries its actual bytes (as sent),
//! its canonical text, its role in the documented grammar, the optional clause it
//! belongs to and the group (EMAPPEND event / ESUB stream) it belongs to. The
//! intended request is derived from the annotations (`want.rs`), never from the
//! server's parser.

use uuid::Uuid;
use vpc::Rng;

pub const KEYWORDS: [&str; 15] = [
    "EVENT_ID", "PARTITION_KEY", "EXPECTED_VERSION", "TIMESTAMP", "PAYLOAD", "METADATA", "COUNT", "FROM", "WINDOW",
    "LATEST", "MAP", "DEFAULT", "ANY", "EXISTS", "EMPTY",
];

pub fn is_keyword(s: &str) -> bool {
    let u = s.to_uppercase();
    KEYWORDS.contains(&u.as_str()) || s == "-" || s == "+" || s == "*"
}

#[derive(Clone, Copy, Debug, PartialEq, Eq)]
pub enum NumTy {
    U64,
    U16,
    I64,
}

#[derive(Clone, Debug, PartialEq, Eq)]
pub enum Role {
    Cmd,
    /// positional stream id
    Stream,
    /// positional event name
    Name,
    /// positional uuid (partition key, event id, subscription id, partition selector by key)
    PosUuid(&'static str),
    /// positional number
    PosNum(&'static str, NumTy),
    /// positional range value: '-', '+' or a number
    PosRange(&'static str),
    /// EPSUB selector: '*', '<pid>', '<p1>,<p2>'
    Selector,
    /// clause keyword
    Kw,
    /// clause values
    Num(NumTy),
    Uuid,
    Bytes,
    /// keyword-like value (ANY / EXISTS / EMPTY / LATEST / MAP)
    Word,
    /// <stream>=<version> or <partition>=<sequence>
    Pair,
}

#[derive(Clone, Debug, PartialEq, Eq)]
pub struct Tok {
    pub b: Vec<u8>,
    pub canon: Vec<u8>,
    pub role: Role,
    /// 0 = positional, otherwise the id of the optional clause
    pub clause: u32,
    /// canonical (documentation) position of the clause among its siblings
    pub ord: u32,
    /// main keyword of the clause ("" for positionals)
    pub kw: &'static str,
    /// 0 = command level, n = n-th EMAPPEND event / ESUB stream
    pub group: u32,
}

impl Tok {
    pub fn canon_str(&self) -> String {
        String::from_utf8_lossy(&self.canon).into_owned()
    }
}

pub struct Builder {
    pub toks: Vec<Tok>,
    next_clause: u32,
    group: u32,
}

impl Builder {
    pub fn new(cmd: &str) -> Self {
        let mut b = Builder { toks: vec![], next_clause: 1, group: 0 };
        b.pos(Role::Cmd, cmd.as_bytes());
        b
    }
    pub fn pos(&mut self, role: Role, text: &[u8]) {
        self.toks.push(Tok { b: text.to_vec(), canon: text.to_vec(), role, clause: 0, ord: 0, kw: "", group: self.group });
    }
    pub fn begin_group(&mut self) {
        self.group += 1;
    }
    pub fn end_groups(&mut self) {
        self.group = 0;
    }
    /// One optional clause: keyword followed by its value tokens.
    pub fn clause(&mut self, ord: u32, kw: &'static str, vals: Vec<(Role, Vec<u8>)>) {
        let id = self.next_clause;
        self.next_clause += 1;
        self.toks.push(Tok { b: kw.as_bytes().to_vec(), canon: kw.as_bytes().to_vec(), role: Role::Kw, clause: id, ord, kw, group: self.group });
        for (role, v) in vals {
            self.toks.push(Tok { b: v.clone(), canon: v, role, clause: id, ord, kw, group: self.group });
        }
    }
    pub fn uuid_pos(&mut self, name: &'static str, u: Uuid) {
        self.pos(Role::PosUuid(name), u.hyphenated().to_string().as_bytes());
    }
    pub fn num_pos(&mut self, name: &'static str, ty: NumTy, n: impl ToString) {
        self.pos(Role::PosNum(name, ty), n.to_string().as_bytes());
    }
}

pub fn uuid_val(u: Uuid) -> (Role, Vec<u8>) {
    (Role::Uuid, u.hyphenated().to_string().into_bytes())
}
pub fn num_val(n: u64) -> (Role, Vec<u8>) {
    (Role::Num(NumTy::U64), n.to_string().into_bytes())
}
pub fn word_val(w: &str) -> (Role, Vec<u8>) {
    (Role::Word, w.as_bytes().to_vec())
}
pub fn bytes_val(b: &[u8]) -> (Role, Vec<u8>) {
    (Role::Bytes, b.to_vec())
}
pub fn pair_val(k: &str, v: u64) -> (Role, Vec<u8>) {
    (Role::Pair, format!("{k}={v}").into_bytes())
}

// ---------------------------------------------------------------------------
// Style: how the canonical tokens are written on the wire
// ---------------------------------------------------------------------------

#[derive(Clone, Debug)]
pub struct Style {
    /// 0 upper (canonical), 1 lower, 2 mixed
    pub kw_case: u8,
    pub cmd_case: u8,
    /// 0 hyphenated lower (canonical), 1 simple, 2 hyphenated upper
    pub uuid_form: u8,
    /// Some(seed): permute the optional clauses of every run
    pub order: Option<u64>,
    pub salt: u64,
}

impl Style {
    pub fn canonical() -> Self {
        Style { kw_case: 0, cmd_case: 0, uuid_form: 0, order: None, salt: 0 }
    }
    pub fn random(rng: &mut Rng) -> Self {
        Style {
            kw_case: *rng.pick(&[0u8, 0, 1, 2]),
            cmd_case: *rng.pick(&[0u8, 0, 1, 2]),
            uuid_form: *rng.pick(&[0u8, 0, 1, 2]),
            order: if rng.chance(2, 3) { Some(rng.next_u64()) } else { None },
            salt: rng.next_u64(),
        }
    }
}

fn recase(canon: &[u8], mode: u8, salt: u64, idx: usize) -> Vec<u8> {
    match mode {
        0 => canon.to_vec(),
        1 => canon.to_ascii_lowercase(),
        _ => {
            let mut r = Rng::new(salt ^ (idx as u64).wrapping_mul(0x9E37_79B9));
            canon.iter().map(|c| if r.chance(1, 2) { c.to_ascii_lowercase() } else { c.to_ascii_uppercase() }).collect()
        }
    }
}

fn reform_uuid(canon: &[u8], form: u8) -> Vec<u8> {
    let s = String::from_utf8_lossy(canon);
    let Ok(u) = Uuid::parse_str(&s) else { return canon.to_vec() };
    match form {
        0 => canon.to_vec(),
        1 => u.simple().to_string().into_bytes(),
        _ => u.hyphenated().to_string().to_uppercase().into_bytes(),
    }
}

/// Runs of optional clauses: maximal contiguous token ranges with clause != 0 and the same group.
pub fn clause_runs(toks: &[Tok]) -> Vec<(usize, usize)> {
    let mut runs = vec![];
    let mut i = 0;
    while i < toks.len() {
        if toks[i].clause != 0 {
            let g = toks[i].group;
            let s = i;
            while i < toks.len() && toks[i].clause != 0 && toks[i].group == g {
                i += 1;
            }
            runs.push((s, i));
        } else {
            i += 1;
        }
    }
    runs
}

fn blocks_of(run: &[Tok]) -> Vec<Vec<Tok>> {
    let mut blocks: Vec<Vec<Tok>> = vec![];
    for t in run {
        match blocks.last_mut() {
            Some(b) if b[0].clause == t.clause => b.push(t.clone()),
            _ => blocks.push(vec![t.clone()]),
        }
    }
    blocks
}

pub fn order_is_canonical(toks: &[Tok]) -> bool {
    clause_runs(toks).iter().all(|&(s, e)| {
        let b = blocks_of(&toks[s..e]);
        b.windows(2).all(|w| w[0][0].ord <= w[1][0].ord)
    })
}

pub fn canonical_order(toks: &mut Vec<Tok>) {
    for (s, e) in clause_runs(toks) {
        let mut b = blocks_of(&toks[s..e]);
        b.sort_by_key(|x| x[0].ord);
        let flat: Vec<Tok> = b.into_iter().flatten().collect();
        toks.splice(s..e, flat);
    }
}

pub fn apply_style(toks: &mut Vec<Tok>, st: &Style) {
    if let Some(seed) = st.order {
        let mut r = Rng::new(seed);
        for (s, e) in clause_runs(toks) {
            let mut b = blocks_of(&toks[s..e]);
            r.shuffle(&mut b);
            let flat: Vec<Tok> = b.into_iter().flatten().collect();
            toks.splice(s..e, flat);
        }
    }
    for (i, t) in toks.iter_mut().enumerate() {
        match t.role {
            Role::Cmd => t.b = recase(&t.canon, st.cmd_case, st.salt, i),
            Role::Kw | Role::Word => t.b = recase(&t.canon, st.kw_case, st.salt, i),
            Role::Uuid | Role::PosUuid(_) => t.b = reform_uuid(&t.canon, st.uuid_form),
            _ => {}
        }
    }
}

// ---------------------------------------------------------------------------
// Value generators (boundary sets)
// ---------------------------------------------------------------------------

pub const BOUNDARY: [u64; 12] = [
    0,
    1,
    65_535,
    65_536,
    u32::MAX as u64 - 1,
    u32::MAX as u64,
    u32::MAX as u64 + 1,
    i64::MAX as u64 - 1,
    i64::MAX as u64,
    i64::MAX as u64 + 1,
    u64::MAX - 1,
    u64::MAX,
];

pub fn num_class(n: u64) -> &'static str {
    match n {
        0 => "0",
        1 => "1",
        5 => "neutral",
        65_535 => "u16max",
        65_536 => "u16max+1",
        4_294_967_294 => "u32max-1",
        4_294_967_295 => "u32max",
        4_294_967_296 => "u32max+1",
        9_223_372_036_854_775_806 => "i64max-1",
        9_223_372_036_854_775_807 => "i64max",
        9_223_372_036_854_775_808 => "i64max+1",
        18_446_744_073_709_551_614 => "u64max-1",
        u64::MAX => "u64max",
        _ => "other",
    }
}

pub fn gen_u64(rng: &mut Rng) -> u64 {
    if rng.chance(2, 3) { *rng.pick(&BOUNDARY) } else { rng.range(2, 2000) }
}
pub fn gen_u64_min1(rng: &mut Rng) -> u64 {
    gen_u64(rng).max(1)
}
pub fn gen_pid(rng: &mut Rng) -> u16 {
    if rng.chance(1, 2) { *rng.pick(&[0u16, 1, 2, 5, 42, 127, 255, 256, 32_767, 65_534, 65_535]) } else { rng.below(1024) as u16 }
}
pub fn gen_uuid(rng: &mut Rng) -> Uuid {
    match rng.below(8) {
        0 => Uuid::nil(),
        1 => Uuid::max(),
        _ => Uuid::from_u128(((rng.next_u64() as u128) << 64) | rng.next_u64() as u128),
    }
}

const ALNUM: &[u8] = b"abcdefghijklmnopqrstuvwxyzABCDEFGHIJKLMNOPQRSTUVWXYZ0123456789";

fn alnum(rng: &mut Rng, n: usize) -> String {
    (0..n).map(|_| *rng.pick(ALNUM) as char).collect()
}

pub fn id_class(s: &str) -> &'static str {
    if s.len() == 1 {
        "len1"
    } else if s.len() == 64 {
        if s.is_ascii() { "len64" } else { "len64-multibyte" }
    } else if s.bytes().all(|c| c.is_ascii_digit()) {
        "numeric"
    } else if s.contains(' ') {
        "space"
    } else if !s.is_ascii() {
        "multibyte"
    } else if KEYWORDS.iter().any(|k| s.to_uppercase().starts_with(k)) {
        "keyword-prefix"
    } else {
        "plain"
    }
}

/// A stream id that is valid by the documentation (1..=64 bytes, no NUL), is not
/// a keyword and contains no '=' (FROM MAP would be ambiguous).
pub fn gen_stream(rng: &mut Rng) -> String {
    loop {
        let s = match rng.below(12) {
            0 => alnum(rng, 1),
            1 => alnum(rng, 64),
            2 => {
                // exactly 64 bytes with 2-byte characters
                let k = rng.range(1, 31) as usize;
                let mut s: String = std::iter::repeat('é').take(k).collect();
                s.push_str(&alnum(rng, 64 - 2 * k));
                s
            }
            3 => format!("{}", rng.below(100_000)),
            4 => format!("orders:{}/eu.{}", rng.below(3000), rng.below(10)),
            5 => format!("my stream {}", rng.below(100)),
            6 => format!("{}{}", rng.pick(&["FROMAGE", "window-", "count_", "latest-news", "map", "Default", "payload.", "from-", "any1", "empty_"]), rng.below(1000)),
            7 => format!("δοκιμή-{}", rng.below(100)),
            _ => format!("{}-{}", rng.pick(&["user", "order", "acct", "cart", "stream"]), rng.below(100_000)),
        };
        if !is_keyword(&s) && !s.contains('=') && (1..=64).contains(&s.len()) {
            return s;
        }
    }
}

pub fn gen_name(rng: &mut Rng) -> String {
    loop {
        let s = match rng.below(8) {
            0 => alnum(rng, 1),
            1 => alnum(rng, 200),
            2 => "Ünïcode Événement".to_string(),
            3 => format!("{}{}", rng.pick(&["PayloadReceived", "Metadata", "TimestampSet", "CountChanged", "FromStart"]), rng.below(100)),
            4 => "user created".to_string(),
            _ => format!("{}{}", rng.pick(&["UserCreated", "OrderPlaced", "EmailVerified", "E"]), rng.below(50)),
        };
        if !is_keyword(&s) {
            return s;
        }
    }
}

pub fn gen_bytes(rng: &mut Rng) -> Vec<u8> {
    match rng.below(10) {
        0 => b"{\"name\":\"john\"}".to_vec(),
        1 => vec![0u8, 255, 13, 10, 0xC3, 0x28, b'$', b'*'],
        2 => rng.pick(&["METADATA", "payload", "EVENT_ID", "from", "5", "-1"]).as_bytes().to_vec(),
        3 => Vec::new(),
        4 => {
            let n = rng.range(1000, 5000) as usize;
            rng.bytes(n)
        }
        _ => {
            let n = rng.range(1, 40) as usize;
            rng.bytes(n)
        }
    }
}
