//! C21 Documented and client-emitted commands parse as intended.
//!
//! Three case families, each a pure function of its case seed:
//!  * doc:       a documented form (cases.rs) written in a seeded style (keyword /
//!               command case, clause order, uuid form) must parse into the request
//!               its annotations denote (want.rs);
//!  * near-miss: a documented form with one mutation that takes it outside the
//!               grammar must be rejected by the parser;
//!  * client:    the argument array the Rust client emits for an API call
//!               (client.rs) must parse into the request the call denotes.
//! A violation on a documented form is minimised (style canonicalised, clauses and
//! groups dropped, values neutralised while the same symptom persists); what is
//! left names the signature.

use vpc::{Args, Report, Rng, Value, json};

use crate::cases::{self, COMMANDS, MUTATIONS};
use crate::gram::*;
use crate::parse::{ParseOutcome, parse_tokens};
use crate::want::{Fields, field_class, want_from_toks};

#[derive(Clone, Debug)]
pub enum Want {
    Exact(Fields),
    /// must be accepted, nothing asserted about the result (the parser has no way to express it)
    Accepted,
    Reject,
}

#[derive(Clone, Debug, PartialEq, Eq)]
pub struct Verdict {
    pub kind: String,
    pub detail: String,
}

pub fn raw(toks: &[Tok]) -> Vec<Vec<u8>> {
    toks.iter().map(|t| t.b.clone()).collect()
}

pub fn show(tokens: &[Vec<u8>]) -> String {
    tokens
        .iter()
        .map(|t| {
            let s = String::from_utf8_lossy(t);
            let s: String = if s.len() > 70 { format!("{}..({} bytes)", s.chars().take(24).collect::<String>(), t.len()) } else { s.into_owned() };
            if s.is_empty() || s.contains(' ') || s.chars().any(|c| c.is_control()) { format!("{s:?}") } else { s }
        })
        .collect::<Vec<_>>()
        .join(" ")
}

/// `intended_positionals`: positional strings the request really contains (never keywords by construction).
pub fn judge(tokens: &[Vec<u8>], want: &Want, intended_positionals: &[String]) -> Option<Verdict> {
    let out = parse_tokens(tokens);
    let swallowed = |pos: &[(&'static str, String)]| -> Option<(String, String)> {
        pos.iter().find(|(_, v)| is_keyword(v) && !intended_positionals.contains(v)).map(|(k, v)| (k.to_string(), v.clone()))
    };
    match (want, out) {
        (_, ParseOutcome::UnknownCommand(e)) => match want {
            Want::Reject => None,
            _ => Some(Verdict { kind: "command-name-not-recognised".into(), detail: e }),
        },
        (Want::Reject, ParseOutcome::Err(_)) => None,
        (Want::Reject, ParseOutcome::Ok(f, pos)) => match swallowed(&pos) {
            Some((k, v)) => Some(Verdict { kind: format!("keyword-taken-as-{k}"), detail: format!("input outside the grammar accepted; keyword {v:?} became a {k}; parsed as {f:?}") }),
            None => Some(Verdict { kind: "near-miss-accepted".into(), detail: format!("parsed as {f:?}") }),
        },
        (Want::Accepted, ParseOutcome::Ok(_, pos)) | (Want::Exact(_), ParseOutcome::Ok(_, pos)) if swallowed(&pos).is_some() => {
            let (k, v) = swallowed(&pos).unwrap();
            Some(Verdict { kind: format!("keyword-taken-as-{k}"), detail: format!("keyword {v:?} was parsed as a {k}: parsed positionals {:?}", pos.iter().map(|p| &p.1).collect::<Vec<_>>()) })
        }
        (Want::Accepted, ParseOutcome::Ok(..)) => None,
        (Want::Accepted, ParseOutcome::Err(e)) | (Want::Exact(_), ParseOutcome::Err(e)) => Some(Verdict { kind: "rejected".into(), detail: e }),
        (Want::Exact(w), ParseOutcome::Ok(f, _)) => {
            if *w == f {
                return None;
            }
            let mut keys: Vec<&String> = w.keys().chain(f.keys()).collect();
            keys.sort();
            keys.dedup();
            let k = keys.into_iter().find(|k| w.get(*k) != f.get(*k)).unwrap();
            Some(Verdict {
                kind: format!("misparsed:{}", field_class(k)),
                detail: format!("field {k}: intended {:?}, parsed {:?}", w.get(k), f.get(k)),
            })
        }
    }
}

fn positionals(toks: &[Tok]) -> Vec<String> {
    toks.iter().filter(|t| matches!(t.role, Role::Stream | Role::Name)).map(|t| t.canon_str()).collect()
}

fn judge_valid(cmd: &str, toks: &[Tok]) -> Option<Verdict> {
    judge(&raw(toks), &Want::Exact(want_from_toks(cmd, toks)), &positionals(toks))
}

// ---------------------------------------------------------------------------
// Minimisation of a violating documented form
// ---------------------------------------------------------------------------

fn candidates(cmd: &str, toks: &[Tok]) -> Vec<Vec<Tok>> {
    let mut out: Vec<Vec<Tok>> = vec![];
    // style dimensions
    for dim in 0..3 {
        let mut t = toks.to_vec();
        let mut changed = false;
        for x in t.iter_mut() {
            let hit = match (dim, &x.role) {
                (0, Role::Cmd) => true,
                (1, Role::Kw | Role::Word) => true,
                (2, Role::Uuid | Role::PosUuid(_)) => true,
                _ => false,
            };
            if hit && x.b != x.canon {
                x.b = x.canon.clone();
                changed = true;
            }
        }
        if changed {
            out.push(t);
        }
    }
    if !order_is_canonical(toks) {
        let mut t = toks.to_vec();
        canonical_order(&mut t);
        out.push(t);
    }
    // drop a whole group (EMAPPEND event / ESUB stream) when more than one is left and no pair refers to it
    let groups = toks.iter().map(|t| t.group).max().unwrap_or(0);
    if groups > 1 {
        for g in (1..=groups).rev() {
            let name = toks.iter().find(|t| t.group == g && t.role == Role::Stream).map(|t| t.canon_str()).unwrap_or_default();
            if toks.iter().any(|t| t.role == Role::Pair && t.canon_str().starts_with(&format!("{name}="))) {
                continue;
            }
            let mut t: Vec<Tok> = toks.iter().filter(|t| t.group != g).cloned().collect();
            // renumber groups
            for x in t.iter_mut() {
                if x.group > g {
                    x.group -= 1;
                }
            }
            out.push(t);
        }
    }
    // drop one optional clause
    let mut ids: Vec<u32> = toks.iter().map(|t| t.clause).filter(|c| *c != 0).collect();
    ids.dedup();
    for c in ids {
        out.push(toks.iter().filter(|t| t.clause != c).cloned().collect());
    }
    // simplify FROM MAP / FROM LATEST to FROM 5 (multi forms only: single forms document FROM <n> only anyway)
    if let Some(c) = toks.iter().find(|t| t.kw == "FROM" && t.role == Role::Word).map(|t| t.clause) {
        let first = toks.iter().position(|t| t.clause == c).unwrap();
        let mut t: Vec<Tok> = toks.iter().filter(|t| t.clause != c || t.role == Role::Kw).cloned().collect();
        let like = toks[first].clone();
        t.insert(first + 1, Tok { b: b"5".to_vec(), canon: b"5".to_vec(), role: Role::Num(NumTy::U64), ..like });
        out.push(t);
    }
    // drop one pair of a map, the DEFAULT part
    for (i, x) in toks.iter().enumerate() {
        if x.role == Role::Pair && toks.iter().filter(|t| t.role == Role::Pair).count() > 1 {
            let mut t = toks.to_vec();
            t.remove(i);
            out.push(t);
        }
        if x.role == Role::Word && x.canon == b"DEFAULT" {
            let mut t = toks.to_vec();
            t.drain(i..i + 2);
            out.push(t);
        }
    }
    // neutralise values
    let has_pairs = toks.iter().any(|t| t.role == Role::Pair);
    for (i, x) in toks.iter().enumerate() {
        let neutral: Option<Vec<u8>> = match &x.role {
            Role::Num(_) | Role::PosNum(..) if x.canon != b"5" && !(cmd == "HELLO") => Some(b"5".to_vec()),
            Role::PosRange(n) if x.canon != b"-" && x.canon != b"+" && x.canon != b"5" => Some(if *n == "start" { b"5".to_vec() } else { b"5".to_vec() }),
            Role::Bytes if x.canon != b"x" => Some(b"x".to_vec()),
            Role::Name if x.canon != b"E" => Some(b"E".to_vec()),
            Role::Stream if !has_pairs => {
                let n = format!("s{}", x.group).into_bytes();
                (x.canon != n).then_some(n)
            }
            Role::Pair => {
                let s = x.canon_str();
                let (k, v) = s.rsplit_once('=').unwrap();
                (v != "5").then(|| format!("{k}=5").into_bytes())
            }
            Role::Selector if x.canon != b"*" => Some(b"*".to_vec()),
            _ => None,
        };
        if let Some(n) = neutral {
            let mut t = toks.to_vec();
            t[i].b = n.clone();
            t[i].canon = n;
            out.push(t);
        }
    }
    out
}

fn minimise(cmd: &str, toks: Vec<Tok>, kind: &str) -> (Vec<Tok>, String) {
    let mut cur = toks;
    let mut kind = kind.to_string();
    let mut steps = 0;
    'outer: loop {
        steps += 1;
        if steps > 300 {
            break;
        }
        for cand in candidates(cmd, &cur) {
            if let Some(v) = judge_valid(cmd, &cand) {
                // a simpler form of the same case that shows a keyword taken as a positional value names
                // the root cause: the case is attributed to that symptom
                let escalate = v.kind.starts_with("keyword-taken-as") && !kind.starts_with("keyword-taken-as");
                if v.kind == kind || escalate {
                    kind = v.kind;
                    cur = cand;
                    continue 'outer;
                }
            }
        }
        break;
    }
    (cur, kind)
}

/// What is left non-neutral in a minimal violating form.
fn features(cmd: &str, toks: &[Tok]) -> Vec<String> {
    let mut f: Vec<String> = vec![];
    if toks.iter().any(|t| t.role == Role::Cmd && t.b != t.canon) {
        f.push("command-case".into());
    }
    if toks.iter().any(|t| matches!(t.role, Role::Kw | Role::Word) && t.b != t.canon) {
        f.push("keyword-case".into());
    }
    if toks.iter().any(|t| matches!(t.role, Role::Uuid | Role::PosUuid(_)) && t.b != t.canon) {
        f.push("uuid-form".into());
    }
    let mut seen: Vec<String> = vec![];
    for t in toks.iter().filter(|t| t.role == Role::Kw) {
        let mut name = t.kw.to_string();
        if t.kw == "FROM" {
            if let Some(w) = toks.iter().find(|x| x.clause == t.clause && x.role == Role::Word && x.canon != b"DEFAULT") {
                name = format!("FROM-{}", w.canon_str());
            }
            if toks.iter().any(|x| x.clause == t.clause && x.canon == b"DEFAULT") {
                name.push_str("-DEFAULT");
            }
        }
        if !seen.contains(&name) {
            seen.push(name);
        }
    }
    if !order_is_canonical(toks) {
        // clause names in the order written
        f.push(format!("order={}", seen.join(">")));
    } else {
        f.extend(seen);
    }
    if toks.iter().map(|t| t.group).max().unwrap_or(0) > 1 {
        f.push("several".into());
    }
    for t in toks {
        match &t.role {
            Role::Num(_) | Role::PosNum(..) | Role::PosRange(_) if cmd != "HELLO" => {
                if let Ok(n) = t.canon_str().parse::<u64>() {
                    if n != 5 {
                        let owner = match &t.role {
                            Role::PosNum(n, _) | Role::PosRange(n) => n.to_string(),
                            _ => t.kw.to_string(),
                        };
                        f.push(format!("{owner}={}", num_class(n)));
                    }
                }
            }
            Role::PosRange(n) => f.push(format!("{n}={}", t.canon_str())),
            Role::Stream => {
                let c = id_class(&t.canon_str());
                if c != "plain" && t.canon_str() != format!("s{}", t.group) {
                    f.push(format!("stream-id={c}"));
                }
            }
            Role::Selector if t.canon != b"*" => f.push(format!("selector={}", if t.canon.contains(&b',') { "list" } else { "single" })),
            Role::PosUuid("partition") => f.push("partition=key".into()),
            Role::PosNum("partition", _) => {}
            _ => {}
        }
    }
    f.sort();
    f.dedup();
    f
}

fn toks_json(toks: &[Tok]) -> Value {
    json!(raw(toks).iter().map(|t| vpc::hex(t)).collect::<Vec<_>>())
}

// ---------------------------------------------------------------------------
// Case families
// ---------------------------------------------------------------------------

fn doc_case(rep: &mut Report, seed: u64) {
    let mut rng = Rng::new(seed);
    let cmd = *rng.pick(&COMMANDS);
    // the subscription and append commands carry most of the grammar: draw them more often
    let cmd = if rng.chance(1, 2) { *rng.pick(&["EAPPEND", "EMAPPEND", "ESUB", "EPSUB", "ESCAN"]) } else { cmd };
    let mut toks = cases::gen_valid(&mut rng, cmd);
    let st = Style::random(&mut rng);
    apply_style(&mut toks, &st);
    rep.evaluations += 1;
    rep.count(&format!("doc.{cmd}"), 1);
    let clauses = {
        let mut ids: Vec<u32> = toks.iter().map(|t| t.clause).filter(|c| *c != 0).collect();
        ids.dedup();
        ids.len()
    };
    let groups = toks.iter().map(|t| t.group).max().unwrap_or(0);
    if clauses >= 2 || groups >= 2 {
        rep.nontrivial(&("doc", raw(&toks)));
    }
    if rep.want_sample() && clauses >= 2 && seed % 7 == 0 {
        rep.sample(json!({"family": "doc", "line": show(&raw(&toks)), "intended": want_from_toks(cmd, &toks)}));
    }
    if !order_is_canonical(&toks) {
        rep.count("doc.non_canonical_order", 1);
    }
    let Some(v) = judge_valid(cmd, &toks) else { return };
    let (min, kind) = minimise(cmd, toks.clone(), &v.kind);
    let vmin = judge_valid(cmd, &min).unwrap_or(v.clone());
    let feats = features(cmd, &min);
    let sig = if kind.starts_with("keyword-taken-as") { format!("C21:{cmd}:{kind}") } else { format!("C21:{cmd}:documented-form-{kind}:{}", feats.join("+")) };
    rep.violation(
        &sig,
        format!("documented form `{}` -> {} ({}); minimal form of the generated case `{}` -> {} ({})", show(&raw(&min)), vmin.kind, vmin.detail, show(&raw(&toks)), v.kind, v.detail.chars().take(200).collect::<String>()),
        json!({"family": "doc", "case_seed": seed, "command": cmd, "minimal_line": show(&raw(&min)), "minimal_tokens_hex": toks_json(&min),
               "original_line": show(&raw(&toks)), "intended": want_from_toks(cmd, &min), "observed": vmin.detail, "features": feats}),
    );
}

/// One near-miss case: Some((command, class, tokens, verdict)) when the parser accepted it.
fn near_miss_eval(seed: u64, only: Option<(&str, &str)>) -> Option<(String, Vec<Tok>, Option<(String, Verdict)>)> {
    let mut rng = Rng::new(seed);
    let mut cmd = *rng.pick(&COMMANDS);
    let mut m = *rng.pick(&MUTATIONS);
    if let Some((c, mm)) = only {
        cmd = COMMANDS.iter().copied().find(|x| *x == c)?;
        m = MUTATIONS.iter().copied().find(|x| *x == mm)?;
    }
    let mut toks = cases::gen_valid(&mut rng, cmd);
    // mostly canonical style so that the mutation is the only thing outside the grammar
    let st = if rng.chance(1, 3) { Style::random(&mut rng) } else { Style::canonical() };
    apply_style(&mut toks, &st);
    let intended = positionals(&toks);
    let class = cases::mutate(&mut rng, cmd, &mut toks, m)?;
    let v = judge(&raw(&toks), &Want::Reject, &intended);
    Some((format!("{cmd}\u{0}{m}\u{0}{class}"), toks, v.map(|v| (class, v))))
}

fn clip(s: &str, n: usize) -> String {
    if s.chars().count() > n { format!("{}...", s.chars().take(n).collect::<String>()) } else { s.to_string() }
}

fn near_miss_case(rep: &mut Report, seed: u64) {
    let Some((key, toks, verdict)) = near_miss_eval(seed, None) else {
        rep.count("near_miss.not_applicable", 1);
        return;
    };
    let mut parts = key.split('\u{0}');
    let (cmd, m, class) = (parts.next().unwrap().to_string(), parts.next().unwrap().to_string(), parts.next().unwrap().to_string());
    rep.evaluations += 1;
    rep.count(&format!("near_miss.{}", class.split(':').next().unwrap()), 1);
    rep.nontrivial(&("near-miss", raw(&toks)));
    if rep.want_sample() && seed % 11 == 0 {
        rep.sample(json!({"family": "near-miss", "class": class, "line": show(&raw(&toks)), "intended": "parse error"}));
    }
    let Some((_, v)) = verdict else { return };
    let sig = if v.kind.starts_with("keyword-taken-as") { format!("C21:{cmd}:{}", v.kind) } else { format!("C21:{cmd}:near-miss-accepted:{class}") };
    // for the first witnesses of a signature: the shortest accepted line among regenerated cases of the same class
    let mut short = (toks.clone(), v.clone(), seed);
    if rep.violations.get(&sig).map(|e| e.2.len() < 2).unwrap_or(true) {
        for k in 0..400u64 {
            let s2 = vpc::derive_seed(seed, &[k]);
            if let Some((key2, t2, Some((_, v2)))) = near_miss_eval(s2, Some((&cmd, &m))) {
                if key2 == key && v2.kind == v.kind && t2.len() < short.0.len() {
                    short = (t2, v2, s2);
                }
            }
        }
    }
    rep.violation(
        &sig,
        format!("`{}` is outside the documented grammar ({class}) but was accepted: {}", show(&raw(&short.0)), clip(&short.1.detail, 500)),
        json!({"family": "near-miss", "case_seed": seed, "command": cmd, "class": class, "line": show(&raw(&toks)), "tokens_hex": toks_json(&toks), "observed": clip(&v.detail, 2000),
               "shortest_of_class": {"line": show(&raw(&short.0)), "tokens_hex": toks_json(&short.0), "observed": clip(&short.1.detail, 2000), "near_miss_seed": short.2}}),
    );
}

pub fn run(args: &Args, rep: &mut Report) {
    vpc::quiet_panics();
    if let Some(r) = args.load_replay() {
        let w = &r["witness"];
        let seed = w["case_seed"].as_u64().unwrap_or(0);
        match w["family"].as_str().unwrap_or("") {
            "doc" => doc_case(rep, seed),
            "near-miss" => near_miss_case(rep, seed),
            "client" => crate::client::replay(rep, w),
            f => rep.inconclusive(format!("replay: unknown family {f:?}")),
        }
        return;
    }
    // client-emitted commands first (needs the loopback recorder), then the generated families
    // `--opt small=1` (interpreter runs, Miri): no sockets, generated families only
    if !args.opts.contains_key("small") {
        crate::client::run(args, rep);
    }
    let max_cases: u64 = args.opt_u64("cases", if args.tier.is_thorough() { 5_000_000 } else { 40_000 });
    let mut i = 0u64;
    while i < max_cases && args.time_left() {
        let seed = args.case_seed(i);
        let r = std::panic::catch_unwind(std::panic::AssertUnwindSafe(|| {
            if i % 5 < 3 { doc_case(rep, seed) } else { near_miss_case(rep, seed) }
        }));
        match r {
            Ok(()) => {}
            Err(_) => {
                // a panic inside the server's parser is a defect of the parser; inside the harness it is harness trouble.
                let p = vpc::last_panic();
                if p.contains("/repo/") {
                    rep.violation("C21:parser:panic", format!("the server's parser panicked: {p}"), json!({"family": if i % 5 < 3 { "doc" } else { "near-miss" }, "case_seed": seed}));
                } else {
                    rep.inconclusive(format!("harness panic in case {seed}: {p}"));
                }
            }
        }
        i += 1;
    }
    rep.count("cases", i);
}

