//! One real `sierradb` server process per shard: single node, replication factor
//! 1, no cluster listener, no mDNS, its own data directory and loopback port.
//! The child is killed and its directory removed when the handle is dropped.

use std::path::{Path, PathBuf};
use std::process::{Child, Command, Stdio};
use std::time::{Duration, Instant};

use crate::resp::{Conn, V};

#[derive(Clone, Debug)]
pub struct ServerCfg {
    pub binary: PathBuf,
    pub profile: String,
    pub strict_versioning: bool,
    pub buckets: u16,
    pub partitions: u16,
    pub segment_bytes: usize,
    pub compression: bool,
}

impl ServerCfg {
    pub fn to_json(&self) -> vpc::Value {
        vpc::json!({"profile": self.profile, "strict_versioning": self.strict_versioning, "buckets": self.buckets, "partitions": self.partitions,
                    "segment_bytes": self.segment_bytes, "compression": self.compression})
    }
}

pub struct Server {
    pub child: Child,
    pub port: u16,
    pub root: PathBuf,
    pub log: PathBuf,
    pub cfg: ServerCfg,
}

/// A loopback port below the ephemeral range (an ephemeral port could be taken by an outgoing connection of a
/// neighbour shard between the probe and the server's bind), free at the time of the probe.
fn free_port(salt: u64) -> std::io::Result<u16> {
    let mut x = salt ^ (std::process::id() as u64).wrapping_mul(0x9E37_79B9_7F4A_7C15);
    for _ in 0..200 {
        let port = 12_000 + (vpc::splitmix(&mut x) % 18_000) as u16;
        if std::net::TcpListener::bind(("127.0.0.1", port)).is_ok() {
            return Ok(port);
        }
    }
    Err(std::io::Error::other("no free port found"))
}

impl Server {
    pub fn start(work: &Path, tag: &str, cfg: &ServerCfg) -> Result<Server, String> {
        let root = work.join(format!("srv-{tag}"));
        let _ = std::fs::remove_dir_all(&root);
        std::fs::create_dir_all(&root).map_err(|e| format!("mkdir {root:?}: {e}"))?;
        let mut last_err = String::new();
        for attempt in 0..4u64 {
            let port = free_port(attempt.wrapping_mul(7919) ^ vpc::hash_of(tag)).map_err(|e| format!("no free port: {e}"))?;
            let toml = format!(
                "dir = {:?}\n\n[append]\nstrict_versioning = {}\n\n[bucket]\ncount = {}\n\n[partition]\ncount = {}\n\n[cache]\ncapacity_bytes = 33554432\n\n\
                 [network]\ncluster_enabled = false\nclient_address = \"127.0.0.1:{}\"\nmdns = false\n\n[node]\ncount = 1\nindex = 0\n\n[replication]\nfactor = 1\n\n\
                 [segment]\nsize_bytes = {}\ncompression = {}\n\n[threads]\nread = 2\nwrite = {}\n",
                root.join("db").to_string_lossy(),
                cfg.strict_versioning,
                cfg.buckets,
                cfg.partitions,
                port,
                cfg.segment_bytes,
                cfg.compression,
                if cfg.buckets % 2 == 0 { 2 } else { 1 }
            );
            let cfg_path = root.join("sierra.toml");
            std::fs::write(&cfg_path, toml).map_err(|e| format!("write config: {e}"))?;
            let log = root.join("server.log");
            let logf = std::fs::File::create(&log).map_err(|e| format!("create log: {e}"))?;
            let mut cmd = Command::new(&cfg.binary);
            cmd.arg("--config").arg(&cfg_path).arg("--log").arg("warn").current_dir(&root).stdin(Stdio::null());
            cmd.stdout(logf.try_clone().map_err(|e| e.to_string())?).stderr(logf);
            // nothing from the environment may override the generated configuration
            for (k, _) in std::env::vars_os() {
                if k.to_string_lossy().starts_with("SIERRA") {
                    cmd.env_remove(k);
                }
            }
            cmd.env("RUST_BACKTRACE", "0");
            // safety net: the server never outlives this engine process (e.g. when the driver's watchdog kills the shard)
            unsafe {
                use std::os::unix::process::CommandExt;
                cmd.pre_exec(|| {
                    libc::prctl(libc::PR_SET_PDEATHSIG, libc::SIGKILL);
                    Ok(())
                });
            }
            let child = cmd.spawn().map_err(|e| format!("spawn {:?}: {e}", cfg.binary))?;
            let mut s = Server { child, port, root: root.clone(), log, cfg: cfg.clone() };
            match s.wait_ready(Duration::from_secs(40)) {
                Ok(()) => return Ok(s),
                Err(e) => {
                    last_err = format!("{e}; log tail: {}", s.log_tail(600));
                    drop(s); // kills, removes root
                    std::fs::create_dir_all(&root).map_err(|e| format!("mkdir {root:?}: {e}"))?;
                }
            }
        }
        let _ = std::fs::remove_dir_all(&root);
        Err(format!("server did not become ready: {last_err}"))
    }

    fn wait_ready(&mut self, timeout: Duration) -> Result<(), String> {
        let t0 = Instant::now();
        while t0.elapsed() < timeout {
            if let Ok(Some(st)) = self.child.try_wait() {
                return Err(format!("server exited during start-up: {st}"));
            }
            if let Ok(mut c) = Conn::connect(self.port) {
                if let Ok(V::Simple(s)) = c.request(&[b"PING".to_vec()], Duration::from_secs(2)) {
                    if s == "PONG" {
                        // the answer must come from our child: a server that could not bind aborts at once
                        std::thread::sleep(Duration::from_millis(250));
                        if let Ok(Some(st)) = self.child.try_wait() {
                            return Err(format!("server exited during start-up: {st}"));
                        }
                        return Ok(());
                    }
                }
            }
            std::thread::sleep(Duration::from_millis(50));
        }
        Err("timeout waiting for PONG".into())
    }

    pub fn alive(&mut self) -> bool {
        matches!(self.child.try_wait(), Ok(None))
    }

    pub fn exit_status(&mut self) -> String {
        match self.child.try_wait() {
            Ok(Some(s)) => s.to_string(),
            Ok(None) => "running".into(),
            Err(e) => format!("unknown ({e})"),
        }
    }

    pub fn log_tail(&self, n: usize) -> String {
        let s = std::fs::read(&self.log).map(|b| String::from_utf8_lossy(&b).into_owned()).unwrap_or_default();
        let s = strip_ansi(&s);
        let start = s.len().saturating_sub(n);
        let mut i = start;
        while !s.is_char_boundary(i) {
            i += 1;
        }
        s[i..].to_string()
    }

    /// Panic messages the server wrote to its log since `from` bytes.
    pub fn panics_since(&self, from: u64) -> Vec<String> {
        let b = std::fs::read(&self.log).unwrap_or_default();
        let s = strip_ansi(&String::from_utf8_lossy(&b[(from as usize).min(b.len())..]));
        let lines: Vec<&str> = s.lines().collect();
        let mut out = vec![];
        for (i, l) in lines.iter().enumerate() {
            if l.contains("panicked at") {
                out.push(format!("{} {}", l.trim(), lines.get(i + 1).map(|x| x.trim()).unwrap_or("")));
            }
        }
        out
    }

}

fn strip_ansi(s: &str) -> String {
    let mut out = String::with_capacity(s.len());
    let mut it = s.chars().peekable();
    while let Some(c) = it.next() {
        if c == '\u{1b}' && it.peek() == Some(&'[') {
            for d in it.by_ref() {
                if d.is_ascii_alphabetic() {
                    break;
                }
            }
        } else {
            out.push(c);
        }
    }
    out
}

impl Drop for Server {
    fn drop(&mut self) {
        let _ = self.child.kill();
        let _ = self.child.wait();
        let _ = std::fs::remove_dir_all(&self.root);
    }
}
