//! C22 The RESP API of a single node behaves like the event-store model.
//!
//! Per history: one real `sierradb` server process (single node, rf 1, small
//! segments), 2-4 client connections driven one command at a time from a seeded
//! generator, every reply compared with the reference model; invalid requests
//! must be answered with an error reply after which PING still works on the same
//! connection. Subscription scenarios run on dedicated connections (sub.rs).

use std::collections::{HashSet, VecDeque};
use std::time::{Duration, SystemTime, UNIX_EPOCH};

use sierradb::id::uuid_v7_with_partition_hash;
use sierradb_protocol::ExpectedVersion;
use uuid::Uuid;
use vpc::model::{MNewEvent, MTxn, Pid};
use vpc::{Args, Report, Rng, Value, json};

use crate::c21::show;
use crate::resp::{Conn, RespErr, V};
use crate::server::{Server, ServerCfg};
use crate::world::*;

pub const REPLY_TIMEOUT: Duration = Duration::from_secs(20);

pub struct Viol {
    pub sig: String,
    pub what: String,
    pub expected: String,
    pub observed: String,
}

enum ReadSpec {
    Scan { cmd: &'static str, matching: Vec<vpc::model::MEvent>, count: u64 },
    Get { want: Option<vpc::model::MEvent> },
    SVer { want: Option<u64> },
    PSeq { want: Option<u64> },
}

pub enum Outcome {
    Reply(V),
    /// connection closed / server died / no reply: already reported
    Lost,
}

pub struct Hist<'a> {
    pub rep: &'a mut Report,
    pub srv: Server,
    pub conns: Vec<Conn>,
    pub w: World,
    pub rng: Rng,
    pub seed: u64,
    pub step: u64,
    pub recent: VecDeque<String>,
    pub stop: Option<String>,
    pub used_ids: HashSet<u128>,
    pub kinds_seen: HashSet<String>,
}

fn now_ms() -> u64 {
    SystemTime::now().duration_since(UNIX_EPOCH).map(|d| d.as_millis() as u64).unwrap_or(0)
}

fn b(s: &str) -> Vec<u8> {
    s.as_bytes().to_vec()
}

#[derive(Clone, Debug)]
struct EvSpec {
    stream: String,
    name: String,
    event_id: Option<Uuid>,
    exp: Option<ExpectedVersion>,
    ts: Option<u64>,
    payload: Vec<u8>,
    metadata: Vec<u8>,
}

fn exp_tokens(v: ExpectedVersion, rng: &mut Rng) -> Vec<u8> {
    match v {
        ExpectedVersion::Any => b(*rng.pick(&["any", "ANY"])),
        ExpectedVersion::Exists => b(*rng.pick(&["exists", "EXISTS"])),
        ExpectedVersion::Empty => b(*rng.pick(&["empty", "EMPTY", "Empty"])),
        ExpectedVersion::Exact(n) => b(&n.to_string()),
    }
}

fn opt_tokens(e: &EvSpec, pk: Option<Uuid>, rng: &mut Rng) -> Vec<Vec<u8>> {
    let mut clauses: Vec<Vec<Vec<u8>>> = vec![];
    if let Some(id) = e.event_id {
        clauses.push(vec![b("EVENT_ID"), b(&id.to_string())]);
    }
    if let Some(k) = pk {
        clauses.push(vec![b("PARTITION_KEY"), b(&k.to_string())]);
    }
    if let Some(v) = e.exp {
        clauses.push(vec![b("EXPECTED_VERSION"), exp_tokens(v, rng)]);
    }
    if let Some(t) = e.ts {
        clauses.push(vec![b("TIMESTAMP"), b(&t.to_string())]);
    }
    if !e.payload.is_empty() {
        clauses.push(vec![b("PAYLOAD"), e.payload.clone()]);
    }
    if !e.metadata.is_empty() {
        clauses.push(vec![b("METADATA"), e.metadata.clone()]);
    }
    rng.shuffle(&mut clauses);
    clauses.into_iter().flatten().collect()
}

impl<'a> Hist<'a> {
    pub fn witness(&self, toks: &[Vec<u8>], expected: &str, observed: &str) -> Value {
        json!({"history_seed": self.seed, "cfg": self.srv.cfg.to_json(), "step": self.step, "command": show(toks),
               "tokens_hex": toks.iter().map(|t| vpc::hex(t)).collect::<Vec<_>>(), "expected": expected, "observed": observed,
               "recent_commands": self.recent.iter().collect::<Vec<_>>(), "model": self.w.summary()})
    }

    pub fn violation(&mut self, sig: &str, what: String, toks: &[Vec<u8>], expected: &str, observed: &str) {
        let w = self.witness(toks, expected, observed);
        self.rep.violation(sig, format!("[{} server, strict_versioning={}] {what}", self.srv.cfg.profile, self.srv.cfg.strict_versioning), w);
    }

    fn cmd_name(toks: &[Vec<u8>]) -> String {
        let n = String::from_utf8_lossy(&toks[0]).to_uppercase();
        if ["EAPPEND", "EMAPPEND", "EGET", "ESCAN", "EPSCAN", "ESVER", "EPSEQ", "ESUB", "EPSUB", "EACK", "HELLO", "PING", "INFO"].contains(&n.as_str()) { n } else { "UNKNOWN".into() }
    }

    /// Connection trouble on connection `ci` while `toks` was outstanding.
    pub fn lost(&mut self, ci: Option<usize>, toks: &[Vec<u8>], class: &str, err: RespErr) {
        let cmd = Self::cmd_name(toks);
        std::thread::sleep(Duration::from_millis(150));
        let panics = self.srv.panics_since(0);
        let last_panic = panics.last().cloned().unwrap_or_else(|| "no panic message in the server log".into());
        match err {
            RespErr::Timeout => {
                self.rep.inconclusive(format!("no reply to `{}` within {:?} (server alive: {})", show(toks), REPLY_TIMEOUT, self.srv.alive()));
                self.stop = Some("reply timeout".into());
            }
            RespErr::Protocol(e) => {
                self.violation(&format!("C22:{cmd}:malformed-reply:{class}"), format!("`{}` was answered with bytes that are not RESP3: {e}", show(toks)), toks, "a RESP3 reply", &e);
            }
            RespErr::Closed(e) => {
                if !self.srv.alive() {
                    let st = self.srv.exit_status();
                    self.violation(
                        &format!("C22:{cmd}:server-died:{class}"),
                        format!("the server process died ({st}) while `{}` was outstanding; {last_panic}; log tail: {}", show(toks), self.srv.log_tail(400)),
                        toks,
                        "a reply",
                        &format!("server exit {st}"),
                    );
                    self.stop = Some("server died".into());
                    return;
                }
                self.violation(
                    &format!("C22:{cmd}:connection-closed:{class}"),
                    format!("the server closed the connection instead of answering `{}` ({e}); server log: {last_panic}", show(toks)),
                    toks,
                    "a reply (result or error)",
                    &format!("connection closed: {e}"),
                );
            }
        }
        if let Some(ci) = ci {
            match Conn::connect(self.srv.port) {
                Ok(c) => self.conns[ci] = c,
                Err(e) => {
                    self.rep.inconclusive(format!("cannot reconnect after a lost connection: {e}"));
                    self.stop = Some("reconnect failed".into());
                }
            }
        }
    }

    /// Send one command on connection `ci`. After an error reply a PING must still be answered.
    pub fn exec(&mut self, ci: usize, toks: &[Vec<u8>], class: &str) -> Outcome {
        self.exec_probe(ci, toks, class, None).0
    }

    /// Like `exec`; `probe` is a second command written in the same TCP write (pipelined), its reply is returned too.
    pub fn exec_probe(&mut self, ci: usize, toks: &[Vec<u8>], class: &str, probe: Option<&[Vec<u8>]>) -> (Outcome, Option<V>) {
        self.step += 1;
        self.rep.evaluations += 1;
        if self.recent.len() >= 8 {
            self.recent.pop_front();
        }
        self.recent.push_back(format!("c{ci}: {}", show(toks)));
        let cmd = Self::cmd_name(toks);
        self.rep.count(&format!("commands.{cmd}"), 1);
        let mut bytes = crate::resp::encode_command(toks);
        if let Some(p) = probe {
            bytes.extend(crate::resp::encode_command(p));
        }
        let r = {
            use std::io::Write;
            let c = &mut self.conns[ci];
            match c.stream.write_all(&bytes) {
                Ok(()) => c.read_reply(REPLY_TIMEOUT),
                Err(e) => Err(RespErr::Closed(format!("write: {e}"))),
            }
        };
        let mut probe_reply = None;
        match r {
            Ok(v) => {
                if probe.is_some() {
                    probe_reply = self.conns[ci].read_reply(REPLY_TIMEOUT).ok();
                }
                if v.is_err() {
                    self.rep.count("error_replies", 1);
                    match self.conns[ci].request(&[b("PING")], REPLY_TIMEOUT) {
                        Ok(V::Simple(s)) if s == "PONG" => self.rep.count("ping_after_error_ok", 1),
                        Ok(other) => self.violation(
                            &format!("C22:{cmd}:ping-after-error-not-answered:{class}"),
                            format!("after the error reply to `{}` a PING on the same connection was answered with {}", show(toks), other.brief()),
                            toks,
                            "+PONG",
                            &other.brief(),
                        ),
                        Err(e) => {
                            self.lost(Some(ci), toks, &format!("ping-after-error:{class}"), e);
                        }
                    }
                }
                (Outcome::Reply(v), probe_reply)
            }
            Err(e) => {
                self.lost(Some(ci), toks, class, e);
                (Outcome::Lost, None)
            }
        }
    }

    fn pick_conn(&mut self) -> usize {
        self.rng.usize_below(self.conns.len())
    }

    // -----------------------------------------------------------------------
    // appends
    // -----------------------------------------------------------------------

    fn fresh_name(&mut self) -> String {
        self.w.next_name += 1;
        let n = self.w.next_name;
        match self.rng.below(6) {
            0 => format!("s{n}"),
            1 => format!("order-{n}-{}", "x".repeat(self.rng.range(0, 40) as usize)),
            2 => format!("δ{n}"),
            3 => format!("{n}"),
            4 => format!("from-{n}"),
            _ => format!("user-{n}"),
        }
    }

    fn gen_bytes(&mut self) -> Vec<u8> {
        match self.rng.below(12) {
            0 => vec![],
            1 => vec![0, 255, 13, 10, b'$', b'-', b'*'],
            2 => {
                let n = self.rng.range(20_000, 60_000) as usize;
                self.rng.bytes(n)
            }
            3 => b("{\"k\":\"v\"}"),
            _ => {
                let n = self.rng.range(1, 200) as usize;
                self.rng.bytes(n)
            }
        }
    }

    fn gen_ts(&mut self) -> Option<u64> {
        match self.rng.below(14) {
            0 => Some(0),
            1 => Some(1),
            2 | 3 => Some(now_ms()),
            4 => Some(TS_LIMIT_MS),
            5 => Some(TS_LIMIT_MS + 1),
            6 => Some(TS_LIMIT_MS - 1),
            7 => Some(TS_OVERFLOW_MS),
            8 => Some(TS_OVERFLOW_MS + 1),
            9 => Some(u64::MAX),
            _ => None,
        }
    }

    /// Expected version for the next event of `stream` given its current version (None = empty).
    fn gen_exp(&mut self, cur: Option<u64>) -> (Option<ExpectedVersion>, &'static str) {
        let right = match cur {
            None => ExpectedVersion::Empty,
            Some(v) => ExpectedVersion::Exact(v),
        };
        match self.rng.below(20) {
            0 => (Some(ExpectedVersion::Exact(cur.map(|v| v + 1).unwrap_or(0))), "exact-too-high"),
            1 => (Some(match cur { Some(v) if v > 0 => ExpectedVersion::Exact(v - 1), _ => ExpectedVersion::Exact(7) }), "exact-wrong"),
            2 => (Some(match cur { Some(_) => ExpectedVersion::Empty, None => ExpectedVersion::Exists }), "empty-or-exists-wrong"),
            3 => (Some(ExpectedVersion::Any), "any"),
            4 => (Some(ExpectedVersion::Exists), "exists"),
            5 => (None, "omitted"),
            6 => (Some(ExpectedVersion::Exact(u64::MAX)), "exact-u64max"),
            _ => {
                if !self.w.strict && self.rng.chance(1, 3) {
                    (Some(ExpectedVersion::Any), "any")
                } else {
                    (Some(right), "right")
                }
            }
        }
    }

    fn gen_event_id(&mut self, key: Uuid) -> (Option<Uuid>, bool) {
        match self.rng.below(10) {
            0 | 1 | 2 => {
                let id = uuid_v7_with_partition_hash(self.w.hash_of_key(key));
                self.used_ids.insert(id.as_u128());
                (Some(id), true)
            }
            3 => {
                // a uuid that does not carry the key's partition hash (not documented as required): either outcome is accepted
                let id = Uuid::from_u128(((self.rng.next_u64() as u128) << 64) | self.rng.next_u64() as u128);
                (Some(id), sierradb::id::validate_event_id(id, self.w.hash_of_key(key)))
            }
            _ => (None, true),
        }
    }

    /// Classify the expected outcome: Ok(()) accept, Err(class) reject, "either" when not documented.
    fn append_expectation(&self, txn: &MTxn, specs: &[EvSpec], ids_valid: bool) -> Result<(), &'static str> {
        if self.w.strict && specs.iter().any(|e| !matches!(e.exp, Some(ExpectedVersion::Empty) | Some(ExpectedVersion::Exact(_)))) {
            return Err("strict-versioning-any-or-exists");
        }
        if specs.iter().any(|e| e.ts.map(|t| t > TS_OVERFLOW_MS).unwrap_or(false)) {
            return Err("timestamp-overflows-nanoseconds");
        }
        if !ids_valid {
            return Err("either");
        }
        match self.w.model.check(txn) {
            Err(vpc::model::Reject::KeyMismatch { .. }) => return Err("partition-key-mismatch"),
            Err(_) => return Err("wrong-expected-version"),
            Ok(_) => {}
        }
        if specs.iter().any(|e| e.ts.map(|t| t > TS_LIMIT_MS).unwrap_or(false)) {
            return Err("timestamp-beyond-2^63-ns");
        }
        Ok(())
    }

    fn build_txn(&mut self, key: Uuid, specs: &[EvSpec]) -> MTxn {
        let id = self.w.next_txn;
        self.w.next_txn += 1;
        MTxn {
            partition_key: key.as_u128(),
            partition_id: self.w.pid_of_key(key),
            txn_id: id,
            events: specs
                .iter()
                .map(|e| MNewEvent {
                    event_id: e.event_id.map(|u| u.as_u128()).unwrap_or(0),
                    stream: e.stream.clone(),
                    expected: World::exp_of(e.exp.unwrap_or(ExpectedVersion::Any)),
                    name: e.name.clone(),
                    timestamp: e.ts.unwrap_or(0),
                    metadata: e.metadata.clone(),
                    payload: e.payload.clone(),
                })
                .collect(),
            expected_seq: vpc::model::Exp::Any,
            confirmation_count: 1,
        }
    }

    /// After an append whose outcome is unknown (connection lost): read the partition tail to learn whether it was applied.
    fn recover_append(&mut self, txn: &mut MTxn, toks: &[Vec<u8>]) {
        if self.stop.is_some() {
            return;
        }
        let pid = txn.partition_id;
        let next = self.w.model.partition_seq(pid).map(|s| s + 1).unwrap_or(0);
        let n = txn.events.len();
        let probe = vec![b("EPSCAN"), b(&pid.to_string()), b(&next.to_string()), b("+"), b("COUNT"), b(&(n + 1).to_string())];
        let mut found: Vec<V> = vec![];
        for _ in 0..6 {
            let Ok(mut c) = Conn::connect(self.srv.port) else { break };
            match c.request(&probe, REPLY_TIMEOUT) {
                Ok(v) => {
                    if let Some(V::Array(evs)) = v.get("events") {
                        found = evs.clone();
                        if !found.is_empty() {
                            break;
                        }
                    }
                }
                Err(_) => break,
            }
            std::thread::sleep(Duration::from_millis(60));
        }
        if found.is_empty() {
            self.rep.count("lost_appends.not_applied", 1);
            return;
        }
        let matches = found.len() == n
            && found.iter().zip(txn.events.iter()).all(|(v, e)| {
                v.get("stream_id").and_then(|x| x.as_text()).as_deref() == Some(e.stream.as_str())
                    && v.get("event_name").and_then(|x| x.as_text()).as_deref() == Some(e.name.as_str())
                    && v.get("payload").and_then(|x| x.as_bytes()).as_deref() == Some(e.payload.as_slice())
            });
        if !matches {
            self.rep.note(format!("history {} stopped: after a lost `{}` the partition tail could not be matched with the request", self.seed, show(toks)));
            self.stop = Some("desync after lost append".into());
            return;
        }
        for (v, e) in found.iter().zip(txn.events.iter_mut()) {
            if let Some(id) = v.get("event_id").and_then(|x| x.as_text()).and_then(|s| Uuid::parse_str(&s).ok()) {
                e.event_id = id.as_u128();
            }
            if let Some(t) = v.get("timestamp").and_then(|x| x.as_int()) {
                e.timestamp = t as u64;
            }
        }
        let key = Uuid::from_u128(txn.partition_key);
        if self.w.force_apply(txn) {
            for e in &txn.events {
                self.w.note_stream(&e.stream, key);
            }
            self.rep.count("lost_appends.applied", 1);
        } else {
            self.stop = Some("desync after lost append".into());
        }
    }

    fn do_eappend(&mut self) {
        // stream instance: new or existing
        let (name, key, explicit_pk) = if self.w.streams.is_empty() || self.rng.chance(1, 4) {
            let name = self.fresh_name();
            if !self.w.keys.is_empty() && self.rng.chance(1, 2) {
                let k = *self.rng.pick(&self.w.keys);
                (name, k, true)
            } else {
                let k = default_key(&name);
                (name, k, self.rng.chance(1, 4))
            }
        } else {
            let s = self.rng.pick(&self.w.streams).clone();
            if self.rng.chance(1, 20) && !self.w.keys.is_empty() {
                // same stream id under another partition key: refused when it lands in the same bucket, a separate stream otherwise
                let k = *self.rng.pick(&self.w.keys);
                (s.name, k, true)
            } else {
                let explicit = !s.default_key || self.rng.chance(1, 4);
                (s.name, s.key, explicit)
            }
        };
        let pid = self.w.pid_of_key(key);
        let cur = self.w.model.stream_version(pid, &name);
        let (exp, exp_class) = self.gen_exp(cur);
        let (event_id, id_valid) = self.gen_event_id(key);
        let mut spec = EvSpec { stream: name.clone(), name: format!("Evt{}", self.rng.below(20)), event_id, exp, ts: self.gen_ts(), payload: self.gen_bytes(), metadata: if self.rng.chance(1, 3) { self.gen_bytes() } else { vec![] } };
        if spec.payload.len() + spec.metadata.len() > 80_000 {
            spec.metadata.truncate(64);
        }
        let mut toks = vec![b(*self.rng.pick(&["EAPPEND", "eappend"])), b(&spec.stream), b(&spec.name)];
        toks.extend(opt_tokens(&spec, explicit_pk.then_some(key), &mut self.rng));
        let mut txn = self.build_txn(key, std::slice::from_ref(&spec));
        let expect = self.append_expectation(&txn, std::slice::from_ref(&spec), id_valid);
        let class = match expect {
            Ok(()) => format!("valid:{exp_class}"),
            Err(c) => c.to_string(),
        };
        self.kinds_seen.insert(format!("EAPPEND:{class}"));
        if cur.is_some() || expect.is_err() {
            self.rep.nontrivial(&("EAPPEND", &toks, cur));
        }
        let ci = self.pick_conn();
        // read-your-write probe: EPSEQ of the partition pipelined right behind a valid append
        let probe = (expect.is_ok() && self.rng.chance(1, 3)).then(|| vec![b("EPSEQ"), b(&pid.to_string())]);
        let t0 = now_ms();
        let (out, probe_reply) = self.exec_probe(ci, &toks, &class, probe.as_deref());
        let t1 = now_ms();
        let Outcome::Reply(v) = out else {
            self.recover_append(&mut txn, &toks);
            return;
        };
        let accepted = !v.is_err();
        self.judge_append("EAPPEND", &toks, &mut txn, std::slice::from_ref(&spec), expect, &class, v, t0, t1);
        if let (Some(p), Some(pr), true) = (probe, probe_reply, accepted) {
            self.rep.count("pipelined_read_your_write_probes", 1);
            let want = self.w.model.partition_seq(pid);
            if pr.as_int().map(|n| n as u64) != want {
                let line = format!("{} | {}", show(&toks), show(&p));
                // is it only late? ask again
                std::thread::sleep(Duration::from_millis(30));
                let again = self.conns[ci].request(&p, REPLY_TIMEOUT).ok();
                if again.as_ref().and_then(|x| x.as_int()).map(|n| n as u64) == want {
                    self.violation(
                        "C22:read-after-append:acknowledged-append-not-yet-visible",
                        format!("`{line}` sent pipelined on one connection: the append was acknowledged (sequence {want:?}) but the EPSEQ behind it answered {}; 30 ms later it answers {want:?}", pr.brief()),
                        &p,
                        &format!("{want:?}"),
                        &pr.brief(),
                    );
                } else {
                    self.violation("C22:EPSEQ:differs-from-model", format!("`{line}`: EPSEQ answered {} (again: {:?}), the model prescribes {want:?}", pr.brief(), again.map(|x| x.brief())), &p, &format!("{want:?}"), &pr.brief());
                }
            }
        }
    }

    fn do_emappend(&mut self) {
        // partition key: a group key, or the default key of one stream
        let key = if self.w.keys.is_empty() || self.rng.chance(1, 4) {
            let name = match self.w.streams.iter().filter(|s| s.default_key).nth(0) {
                Some(_) if self.rng.chance(1, 2) => {
                    let c: Vec<StreamInst> = self.w.streams.iter().filter(|s| s.default_key).cloned().collect();
                    self.rng.pick(&c).name.clone()
                }
                _ => self.fresh_name(),
            };
            default_key(&name)
        } else {
            *self.rng.pick(&self.w.keys)
        };
        let pid = self.w.pid_of_key(key);
        let mine: Vec<String> = self.w.streams.iter().filter(|s| s.key == key).map(|s| s.name.clone()).collect();
        // when the key is some stream's default key that stream is the natural member
        let mut pool: Vec<String> = mine.clone();
        if let Some(s) = self.w.streams.iter().find(|s| s.default_key && s.key == key) {
            pool.push(s.name.clone());
        }
        let n_streams = self.rng.range(1, 3) as usize;
        let mut streams: Vec<String> = vec![];
        for _ in 0..n_streams {
            let s = if pool.is_empty() || self.rng.chance(1, 3) {
                let n = self.fresh_name();
                // a fresh stream written under its own default key only fits when that is this key
                n
            } else {
                self.rng.pick(&pool).clone()
            };
            if !streams.contains(&s) {
                streams.push(s);
            }
        }
        let n_events = self.rng.range(1, 4) as usize;
        let mut cur: std::collections::BTreeMap<String, Option<u64>> = streams.iter().map(|s| (s.clone(), self.w.model.stream_version(pid, s))).collect();
        let mut specs: Vec<EvSpec> = vec![];
        let mut ids_valid = true;
        let mut classes: Vec<&'static str> = vec![];
        let mut assigns_zero = false;
        for _ in 0..n_events {
            let s = self.rng.pick(&streams).clone();
            let c = cur[&s];
            let (exp, cl) = self.gen_exp(c);
            classes.push(cl);
            if c.is_none() {
                assigns_zero = true;
            }
            cur.insert(s.clone(), Some(c.map(|v| v + 1).unwrap_or(0)));
            let (event_id, ok) = self.gen_event_id(key);
            ids_valid &= ok;
            let ts = if self.rng.chance(1, 3) { self.gen_ts() } else { None };
            specs.push(EvSpec { stream: s, name: format!("M{}", self.rng.below(20)), event_id, exp, ts, payload: self.gen_bytes(), metadata: if self.rng.chance(1, 4) { self.gen_bytes() } else { vec![] } });
        }
        // keep a transaction well below the smallest segment (128 KiB): oversized transactions are C19's subject
        let mut total = 0usize;
        for e in specs.iter_mut() {
            total += e.payload.len() + e.metadata.len();
            if total > 80_000 {
                e.payload.truncate(64);
                e.metadata.truncate(64);
            }
        }
        let mut toks = vec![b("EMAPPEND"), b(&key.to_string())];
        for e in &specs {
            toks.push(b(&e.stream));
            toks.push(b(&e.name));
            toks.extend(opt_tokens(e, None, &mut self.rng));
        }
        let mut txn = self.build_txn(key, &specs);
        let expect = self.append_expectation(&txn, &specs, ids_valid);
        let class = match expect {
            Ok(()) => format!("valid:{}", if assigns_zero { "creates-a-stream" } else { "existing-streams-only" }),
            Err(c) => c.to_string(),
        };
        self.kinds_seen.insert(format!("EMAPPEND:{class}"));
        self.rep.nontrivial(&("EMAPPEND", &toks));
        if specs.len() >= 2 && streams.len() >= 2 && expect.is_ok() {
            self.rep.count("multi_stream_transactions_valid", 1);
        }
        let ci = self.pick_conn();
        let (t0, out) = (now_ms(), self.exec(ci, &toks, &class));
        let t1 = now_ms();
        let Outcome::Reply(v) = out else {
            self.recover_append(&mut txn, &toks);
            return;
        };
        self.judge_append("EMAPPEND", &toks, &mut txn, &specs, expect, &class, v, t0, t1);
    }

    #[allow(clippy::too_many_arguments)]
    fn judge_append(&mut self, cmd: &str, toks: &[Vec<u8>], txn: &mut MTxn, specs: &[EvSpec], expect: Result<(), &'static str>, class: &str, v: V, t0: u64, t1: u64) {
        let key = Uuid::from_u128(txn.partition_key);
        match (&expect, v.is_err()) {
            (Err(_), true) => {
                self.rep.count(&format!("appends_rejected.{}", expect.unwrap_err()), 1);
                return;
            }
            (Ok(()), true) => {
                self.violation(&format!("C22:{cmd}:valid-append-rejected:{class}"), format!("`{}` satisfies every condition of the model but was answered {}", show(toks), v.brief()), toks, "append accepted", &v.brief());
                return;
            }
            (Err(c), false) if *c != "either" => {
                self.violation(&format!("C22:{cmd}:invalid-append-accepted:{c}"), format!("`{}` must be refused ({c}) but was answered {}", show(toks), v.brief()), toks, "an error reply", &v.brief());
            }
            _ => {}
        }
        // accepted: learn ids / timestamps, compare numbers with the model
        let assigned = {
            let mut t2 = txn.clone();
            if expect.is_err() {
                for e in t2.events.iter_mut() {
                    e.expected = vpc::model::Exp::Any;
                }
            }
            self.w.model.check(&t2).ok()
        };
        let mut diffs: Vec<String> = vec![];
        let text = |m: &V, k: &str| m.get(k).and_then(|x| x.as_text());
        let int = |m: &V, k: &str| m.get(k).and_then(|x| x.as_int());
        if text(&v, "partition_key").as_deref() != Some(key.to_string().as_str()) {
            diffs.push(format!("partition_key {:?} != {key}", text(&v, "partition_key")));
        }
        if int(&v, "partition_id") != Some(txn.partition_id as i64) {
            diffs.push(format!("partition_id {:?} != {}", int(&v, "partition_id"), txn.partition_id));
        }
        let ev_replies: Vec<V> = if cmd == "EAPPEND" {
            vec![v.clone()]
        } else {
            match v.get("events") {
                Some(V::Array(a)) => a.clone(),
                other => {
                    diffs.push(format!("events field is {:?}", other.map(|x| x.brief())));
                    vec![]
                }
            }
        };
        if ev_replies.len() != specs.len() {
            diffs.push(format!("{} event entries for {} events", ev_replies.len(), specs.len()));
        }
        if let Some(a) = &assigned {
            if cmd == "EAPPEND" {
                if int(&v, "partition_sequence") != Some(a.first_seq as i64) {
                    diffs.push(format!("partition_sequence {:?} != model {}", int(&v, "partition_sequence"), a.first_seq));
                }
            } else {
                if int(&v, "first_partition_sequence") != Some(a.first_seq as i64) {
                    diffs.push(format!("first_partition_sequence {:?} != model {}", int(&v, "first_partition_sequence"), a.first_seq));
                }
                if int(&v, "last_partition_sequence") != Some(a.last_seq as i64) {
                    diffs.push(format!("last_partition_sequence {:?} != model {}", int(&v, "last_partition_sequence"), a.last_seq));
                }
            }
        }
        let mut version_diff = false;
        for (i, (r, e)) in ev_replies.iter().zip(specs.iter()).enumerate() {
            match text(r, "event_id").and_then(|s| Uuid::parse_str(&s).ok()) {
                Some(id) => {
                    if let Some(want) = e.event_id {
                        if id != want {
                            diffs.push(format!("event {i}: event_id {id} != requested {want}"));
                        }
                    }
                    txn.events[i].event_id = id.as_u128();
                }
                None => diffs.push(format!("event {i}: event_id missing or no uuid")),
            }
            if cmd == "EMAPPEND" && text(r, "stream_id").as_deref() != Some(e.stream.as_str()) {
                diffs.push(format!("event {i}: stream_id {:?} != {:?}", text(r, "stream_id"), e.stream));
            }
            if let Some(a) = &assigned {
                let want = a.per_event[i].1;
                if int(r, "stream_version") != Some(want as i64) {
                    version_diff = true;
                    diffs.push(format!("event {i} ({}): stream_version {:?} != model {want}", e.stream, int(r, "stream_version")));
                }
            }
            match (int(r, "timestamp"), e.ts) {
                (Some(t), Some(want)) => {
                    if t != want as i64 {
                        diffs.push(format!("event {i}: timestamp {t} != requested {want}"));
                    }
                    txn.events[i].timestamp = want;
                }
                (Some(t), None) => {
                    if (t as u64) + 2000 < t0 || (t as u64) > t1 + 2000 {
                        diffs.push(format!("event {i}: generated timestamp {t} outside [{t0}, {t1}] ms"));
                    }
                    txn.events[i].timestamp = t as u64;
                }
                (None, _) => diffs.push(format!("event {i}: timestamp missing")),
            }
        }
        if !diffs.is_empty() {
            let what = if version_diff { "per-event-stream-version" } else { "reply-fields" };
            self.violation(&format!("C22:{cmd}:append-reply-differs-from-model:{what}"), format!("reply to `{}` differs from the model: {}; reply {}", show(toks), diffs.join("; "), v.brief()), toks, &format!("{assigned:?}"), &v.brief());
        }
        let applied = if expect.is_ok() { self.w.model.apply(txn).is_ok() } else { self.w.force_apply(txn) };
        if !applied {
            self.rep.note(format!("history {} stopped: the server accepted `{}` which the model cannot represent", self.seed, show(toks)));
            self.stop = Some("desync".into());
            return;
        }
        self.rep.count("appends_accepted", 1);
        for e in specs {
            self.w.note_stream(&e.stream, key);
        }
        if !self.w.keys.contains(&key) && self.rng.chance(1, 3) {
            self.w.keys.push(key);
        }
    }

    // -----------------------------------------------------------------------
    // reads
    // -----------------------------------------------------------------------

    fn check_scan(&mut self, cmd: &str, toks: &[Vec<u8>], v: &V, matching: &[vpc::model::MEvent], count: u64, class: &str) -> Option<Viol> {
        let viol = |sig: String, what: String, expected: String, observed: String| Some(Viol { sig, what, expected, observed });
        if v.is_err() {
            return viol(format!("C22:{cmd}:valid-scan-rejected:{class}"), format!("`{}` answered {}", show(toks), v.brief()), "scan result".into(), v.brief());
        }
        let evs = match v.get("events") {
            Some(V::Array(a)) => a.clone(),
            _ => return viol(format!("C22:{cmd}:reply-shape"), format!("`{}` answered {}", show(toks), v.brief()), "map with has_more and events".into(), v.brief()),
        };
        let has_more = match v.get("has_more") {
            Some(V::Bool(b)) => *b,
            other => return viol(format!("C22:{cmd}:reply-shape"), format!("`{}`: has_more is {:?}", show(toks), other.map(|x| x.brief())), "boolean has_more".into(), v.brief()),
        };
        let want_n = (matching.len() as u64).min(count) as usize;
        let summary = |evs: &[V]| evs.iter().map(|e| format!("{}@{}", e.get("stream_version").and_then(|x| x.as_int()).unwrap_or(-1), e.get("partition_sequence").and_then(|x| x.as_int()).unwrap_or(-1))).collect::<Vec<_>>().join(",");
        let want_summary = matching.iter().take(want_n).map(|e| format!("{}@{}", e.version, e.seq)).collect::<Vec<_>>().join(",");
        if evs.len() > want_n {
            return viol(format!("C22:{cmd}:returns-more-than-model:{class}"), format!("`{}` returned {} events [{}], the model prescribes {} [{}] (version@sequence)", show(toks), evs.len(), summary(&evs), want_n, want_summary), want_summary, summary(&evs));
        }
        for (r, e) in evs.iter().zip(matching.iter()) {
            if let Err(d) = self.w.check_event(r, e) {
                return viol(format!("C22:{cmd}:event-differs-from-model:{class}"), format!("`{}`: {d}", show(toks)), want_summary, summary(&evs));
            }
        }
        if evs.len() < want_n {
            let sub = if has_more { "short-page-with-has_more" } else { "events-missing" };
            return viol(format!("C22:{cmd}:{sub}:{class}"), format!("`{}` returned {} events [{}] (has_more={has_more}), the model prescribes {} [{}] (version@sequence)", show(toks), evs.len(), summary(&evs), want_n, want_summary), want_summary, summary(&evs));
        }
        if matching.len() > evs.len() && !has_more {
            return viol(
                format!("C22:{cmd}:has_more-false-hides-events:{class}"),
                format!("`{}` returned {} events with has_more=false although {} matching events exist in the model", show(toks), evs.len(), matching.len()),
                "has_more=true".into(),
                "has_more=false".into(),
            );
        }
        None
    }

    fn judge_read(&mut self, toks: &[Vec<u8>], spec: &ReadSpec, class: &str, v: &V) -> Option<Viol> {
        let viol = |sig: &str, what: String, expected: String| Some(Viol { sig: sig.to_string(), what, expected, observed: v.brief() });
        match spec {
            ReadSpec::Scan { cmd, matching, count } => self.check_scan(cmd, toks, v, matching, *count, class),
            ReadSpec::Get { want: None } => match v {
                V::Null => None,
                other => viol("C22:EGET:unknown-id-not-null", format!("`{}` answered {}", show(toks), other.brief()), "null".into()),
            },
            ReadSpec::Get { want: Some(e) } => match v {
                V::Map(_) => match self.w.check_event(v, e) {
                    Ok(()) => None,
                    Err(d) => viol("C22:EGET:event-differs-from-model", format!("`{}`: {d}", show(toks)), format!("{}@{} of {}", e.version, e.seq, e.stream)),
                },
                other => viol(
                    &format!("C22:EGET:existing-event-not-returned:{}", if other.is_err() { "error" } else { "null-or-other" }),
                    format!("`{}` (partition {} sequence {}) answered {}", show(toks), e.partition_id, e.seq, other.brief()),
                    "the event".into(),
                ),
            },
            ReadSpec::SVer { want } | ReadSpec::PSeq { want } => {
                let ok = match (want, v) {
                    (None, V::Null) => true,
                    (Some(n), V::Int(m)) => *n as i64 == *m,
                    _ => false,
                };
                let cmd = if matches!(spec, ReadSpec::SVer { .. }) { "ESVER" } else { "EPSEQ" };
                if ok { None } else { viol(&format!("C22:{cmd}:differs-from-model"), format!("`{}` answered {}, the model prescribes {want:?}", show(toks), v.brief()), format!("{want:?}")) }
            }
        }
    }

    /// Execute a read and compare it with the model. A mismatch that disappears when the same read is
    /// repeated shortly afterwards is a read that did not yet see an acknowledged append.
    fn do_read(&mut self, toks: Vec<Vec<u8>>, spec: ReadSpec, class: &str) {
        let ci = self.pick_conn();
        let Outcome::Reply(v) = self.exec(ci, &toks, class) else { return };
        self.rep.count(&format!("{}_compared", String::from_utf8_lossy(&toks[0]).to_lowercase()), 1);
        let Some(first) = self.judge_read(&toks, &spec, class, &v) else { return };
        let t0 = std::time::Instant::now();
        for attempt in 1..=6u32 {
            std::thread::sleep(Duration::from_millis(15 * attempt as u64));
            let Ok(v2) = self.conns[ci].request(&toks, REPLY_TIMEOUT) else { break };
            if self.judge_read(&toks, &spec, class, &v2).is_none() {
                self.violation(
                    "C22:read-after-append:acknowledged-append-not-yet-visible",
                    format!("{} -- the same command repeated {} ms later ({} repeats) agrees with the model: the first read did not yet see an append that had already been acknowledged", first.what, t0.elapsed().as_millis(), attempt),
                    &toks,
                    &first.expected,
                    &first.observed,
                );
                return;
            }
        }
        self.violation(&first.sig, first.what.clone(), &toks, &first.expected, &first.observed);
    }

    fn gen_range(&mut self, last: Option<u64>) -> (Vec<u8>, u64, Vec<u8>, Option<u64>, &'static str) {
        let l = last.unwrap_or(0);
        let (st, s) = match self.rng.below(7) {
            0 => (b("-"), 0),
            1 => (b("0"), 0),
            2 => (b(&l.to_string()), l),
            3 => (b(&(l + 1).to_string()), l + 1),
            4 => (b(&u64::MAX.to_string()), u64::MAX),
            _ => {
                let x = self.rng.range(0, l);
                (b(&x.to_string()), x)
            }
        };
        let (et, e, cl) = match self.rng.below(7) {
            0 | 1 => (b("+"), None, "open-end"),
            2 => (b(&l.to_string()), Some(l), "end-at-last"),
            3 => (b(&(l + 1000).to_string()), Some(l + 1000), "end-beyond-last"),
            4 => (b(&u64::MAX.to_string()), Some(u64::MAX), "end-u64max"),
            5 => {
                let x = self.rng.range(0, s.min(l));
                (b(&x.to_string()), Some(x), "end-before-start-or-inside")
            }
            _ => {
                let x = self.rng.range(s.min(l), l);
                (b(&x.to_string()), Some(x), "end-inside")
            }
        };
        (st, s, et, e, cl)
    }

    fn gen_count(&mut self) -> (Option<u64>, u64) {
        match self.rng.below(8) {
            0 => (Some(0), 0),
            1 => (Some(1), 1),
            2 => (Some(2), 2),
            3 => (Some(100), 100),
            4 => (Some(u64::MAX), u64::MAX),
            5 => (Some(3), 3),
            _ => (None, 100),
        }
    }

    fn do_escan(&mut self) {
        let (name, key, explicit) = if self.w.streams.is_empty() || self.rng.chance(1, 10) {
            let n = self.fresh_name();
            let k = default_key(&n);
            (n, k, false)
        } else {
            let s = self.rng.pick(&self.w.streams).clone();
            (s.name, s.key, !s.default_key || self.rng.chance(1, 4))
        };
        let pid = self.w.pid_of_key(key);
        let last = self.w.model.stream_version(pid, &name);
        let (st, s, et, e, cl) = self.gen_range(last);
        let (count_tok, count) = self.gen_count();
        let mut toks = vec![b("ESCAN"), b(&name), st, et];
        let mut clauses: Vec<Vec<Vec<u8>>> = vec![];
        if explicit {
            clauses.push(vec![b("PARTITION_KEY"), b(&key.to_string())]);
        }
        if let Some(c) = count_tok {
            clauses.push(vec![b(*self.rng.pick(&["COUNT", "count"])), b(&c.to_string())]);
        }
        self.rng.shuffle(&mut clauses);
        toks.extend(clauses.into_iter().flatten());
        let matching = self.w.stream_range(pid, &name, s, e);
        let class = format!("{cl}:{}", if count == 0 { "count-0" } else if (count as usize) < matching.len() { "count-below-matching" } else { "count-covers" });
        if matching.len() >= 2 {
            self.rep.nontrivial(&("ESCAN", &toks, matching.len()));
        }
        self.do_read(toks, ReadSpec::Scan { cmd: "ESCAN", matching, count }, &class);
    }

    fn pick_partition(&mut self) -> (Vec<u8>, Pid) {
        let used: Vec<Pid> = self.w.model.partitions.keys().copied().collect();
        if !used.is_empty() && self.rng.chance(4, 5) {
            let p = *self.rng.pick(&used);
            // by id, or by a key that maps to it
            if let Some(s) = self.w.streams.iter().find(|s| s.pid == p) {
                if self.rng.chance(1, 3) {
                    return (b(&s.key.to_string()), p);
                }
            }
            (b(&p.to_string()), p)
        } else if self.rng.chance(1, 2) {
            let k = Uuid::from_u128(((self.rng.next_u64() as u128) << 64) | self.rng.next_u64() as u128);
            (b(&k.simple().to_string()), self.w.pid_of_key(k))
        } else {
            let p = self.rng.below(self.w.partitions as u64) as Pid;
            (b(&p.to_string()), p)
        }
    }

    fn do_epscan(&mut self) {
        let (ptok, pid) = self.pick_partition();
        let last = self.w.model.partition_seq(pid);
        let (st, s, et, e, cl) = self.gen_range(last);
        let (count_tok, count) = self.gen_count();
        let mut toks = vec![b("EPSCAN"), ptok, st, et];
        if let Some(c) = count_tok {
            toks.push(b("COUNT"));
            toks.push(b(&c.to_string()));
        }
        let matching = self.w.partition_range(pid, s, e);
        let class = format!("{cl}:{}", if count == 0 { "count-0" } else if (count as usize) < matching.len() { "count-below-matching" } else { "count-covers" });
        if matching.len() >= 2 {
            self.rep.nontrivial(&("EPSCAN", &toks, matching.len()));
        }
        self.do_read(toks, ReadSpec::Scan { cmd: "EPSCAN", matching, count }, &class);
    }

    fn do_eget(&mut self) {
        let total = self.w.model.total_events();
        let (id, want) = if total > 0 && self.rng.chance(5, 6) {
            let all: Vec<&vpc::model::MEvent> = self.w.model.partitions.values().flat_map(|v| v.iter()).collect();
            let e = (*self.rng.pick(&all)).clone();
            (Uuid::from_u128(e.event_id), Some(e))
        } else {
            let k = if self.w.keys.is_empty() { Uuid::nil() } else { *self.rng.pick(&self.w.keys) };
            (uuid_v7_with_partition_hash(self.w.hash_of_key(k)), None)
        };
        let toks = vec![b("EGET"), b(&if self.rng.chance(1, 4) { id.simple().to_string() } else { id.to_string() })];
        let class = if want.is_some() { "existing" } else { "unknown-id" };
        self.do_read(toks, ReadSpec::Get { want }, class);
    }

    fn do_esver(&mut self) {
        let (name, key, explicit) = if self.w.streams.is_empty() || self.rng.chance(1, 6) {
            let n = self.fresh_name();
            let k = default_key(&n);
            (n, k, false)
        } else {
            let s = self.rng.pick(&self.w.streams).clone();
            (s.name, s.key, !s.default_key || self.rng.chance(1, 4))
        };
        let pid = self.w.pid_of_key(key);
        let mut toks = vec![b("ESVER"), b(&name)];
        if explicit {
            toks.push(b("PARTITION_KEY"));
            toks.push(b(&key.to_string()));
        }
        let want = self.w.model.stream_version(pid, &name);
        self.do_read(toks, ReadSpec::SVer { want }, "version");
    }

    fn do_epseq(&mut self) {
        let (ptok, pid) = self.pick_partition();
        let toks = vec![b("EPSEQ"), ptok];
        let want = self.w.model.partition_seq(pid);
        self.do_read(toks, ReadSpec::PSeq { want }, "sequence");
    }

    // -----------------------------------------------------------------------
    // invalid requests: an error reply, and the connection stays usable
    // -----------------------------------------------------------------------

    fn do_invalid(&mut self) {
        let some_stream = self.w.streams.first().map(|s| s.name.clone()).unwrap_or("nostream".into());
        let (toks, class): (Vec<Vec<u8>>, String) = match self.rng.below(12) {
            0 => (vec![b("EFOO"), b("x")], "unknown-command".into()),
            1 => (vec![b("ESCAN"), b(&some_stream), b("+"), b("+")], "range-start-plus".into()),
            2 => (vec![b("ESCAN"), b(&some_stream), b("0"), b("-")], "range-end-minus".into()),
            3 => (vec![b("EPSCAN"), b("0"), b("+"), b("5")], "range-start-plus".into()),
            4 => (vec![b("EPSCAN"), b("0"), b("-"), b("-")], "range-end-minus".into()),
            5 => (vec![b("HELLO"), b(*self.rng.pick(&["2", "4", "0", "-3"]))], "hello-unsupported-version".into()),
            6 => (vec![b("EACK"), b(&Uuid::from_u128(self.rng.next_u64() as u128).to_string()), b("5")], "eack-unknown-subscription".into()),
            _ => {
                // a grammar near miss of a command whose parser rejects it (the forms the parser wrongly accepts are C21's business)
                let cmd = *self.rng.pick(&["EAPPEND", "EGET", "ESCAN", "EPSCAN", "ESVER", "EPSEQ", "EACK", "HELLO"]);
                let m = *self.rng.pick(&["missing-value", "bad-number", "bad-uuid", "trailing-token", "missing-positional", "bad-stream-id", "partition-out-of-range", "empty-command-args"]);
                let mut t = crate::cases::gen_valid(&mut self.rng, cmd);
                match crate::cases::mutate(&mut self.rng, cmd, &mut t, m) {
                    Some(c) => (crate::c21::raw(&t), format!("grammar:{c}")),
                    None => (vec![b(cmd), b("a"), b("b"), b("c"), b("d"), b("e"), b("f"), b("g")], "grammar:garbage-arguments".into()),
                }
            }
        };
        self.rep.nontrivial(&("invalid", &toks));
        self.kinds_seen.insert(format!("invalid:{class}"));
        let cmd = Self::cmd_name(&toks);
        let ci = self.pick_conn();
        let Outcome::Reply(v) = self.exec(ci, &toks, &class) else { return };
        self.rep.count("invalid_requests", 1);
        if !v.is_err() {
            self.violation(&format!("C22:{cmd}:invalid-request-not-rejected:{class}"), format!("`{}` is invalid ({class}) but was answered {}", show(&toks), v.brief()), &toks, "an error reply", &v.brief());
        }
    }

    fn do_misc(&mut self) {
        let ci = self.pick_conn();
        if self.rng.chance(1, 2) {
            let toks = vec![b(*self.rng.pick(&["PING", "ping"]))];
            if let Outcome::Reply(v) = self.exec(ci, &toks, "ping") {
                if v != V::Simple("PONG".into()) {
                    self.violation("C22:PING:not-pong", format!("PING answered {}", v.brief()), &toks, "+PONG", &v.brief());
                }
            }
        } else {
            let toks = vec![b("HELLO"), b("3")];
            if let Outcome::Reply(v) = self.exec(ci, &toks, "hello") {
                let ok = v.get("server").and_then(|x| x.as_text()).as_deref() == Some("sierradb") && v.get("num_partitions").and_then(|x| x.as_int()) == Some(self.w.partitions as i64);
                if !ok {
                    self.violation("C22:HELLO:reply-differs", format!("HELLO 3 answered {}", v.brief()), &toks, "server=sierradb, num_partitions", &v.brief());
                }
            }
        }
    }

    /// An append used by the subscription scenarios (valid, on a given stream/key), returns the stored events.
    pub fn append_for_sub(&mut self, name: &str, key: Uuid) -> Vec<vpc::model::MEvent> {
        let pid = self.w.pid_of_key(key);
        let cur = self.w.model.stream_version(pid, name);
        let exp = match cur {
            None => ExpectedVersion::Empty,
            Some(v) => ExpectedVersion::Exact(v),
        };
        let spec = EvSpec { stream: name.to_string(), name: "Live".into(), event_id: None, exp: Some(exp), ts: None, payload: self.rng.bytes(12), metadata: vec![] };
        let mut toks = vec![b("EAPPEND"), b(name), b("Live")];
        toks.extend(opt_tokens(&spec, Some(key), &mut self.rng));
        let mut txn = self.build_txn(key, std::slice::from_ref(&spec));
        let expect = self.append_expectation(&txn, std::slice::from_ref(&spec), true);
        let before = self.w.model.partition_events(pid).len();
        let ci = self.pick_conn();
        let (t0, out) = (now_ms(), self.exec(ci, &toks, "valid:right"));
        let t1 = now_ms();
        match out {
            Outcome::Reply(v) => self.judge_append("EAPPEND", &toks, &mut txn, std::slice::from_ref(&spec), expect, "valid:right", v, t0, t1),
            Outcome::Lost => self.recover_append(&mut txn, &toks),
        }
        self.w.model.partition_events(pid)[before..].to_vec()
    }

    fn one_step(&mut self) {
        match self.rng.below(100) {
            0..=27 => self.do_eappend(),
            28..=41 => self.do_emappend(),
            42..=51 => self.do_escan(),
            52..=61 => self.do_epscan(),
            62..=69 => self.do_eget(),
            70..=75 => self.do_esver(),
            76..=81 => self.do_epseq(),
            82..=94 => self.do_invalid(),
            95..=97 => self.do_misc(),
            _ => crate::sub::scenario(self),
        }
    }
}

fn history_cfg(seed: u64, binary: &str, profile: &str) -> ServerCfg {
    let mut r = Rng::new(seed ^ 0x5EED_C0F1);
    let buckets = *r.pick(&[1u16, 2, 4]);
    ServerCfg {
        binary: binary.into(),
        profile: profile.into(),
        strict_versioning: r.chance(1, 2),
        buckets,
        partitions: buckets * *r.pick(&[1u16, 2, 8]),
        segment_bytes: *r.pick(&[131_072usize, 262_144, 1_048_576]),
        compression: r.chance(1, 2),
    }
}

/// One history against a fresh server. `max_steps`: stop after that many commands.
fn run_history(args: &Args, rep: &mut Report, seed: u64, binary: &str, profile: &str, max_steps: u64, deadline_s: f64) {
    let cfg = history_cfg(seed, binary, profile);
    let srv = match Server::start(&args.work, &format!("{}-{seed:x}", args.shard), &cfg) {
        Ok(s) => s,
        Err(e) => return rep.inconclusive(format!("could not start the {profile} server: {e}")),
    };
    let mut rng = Rng::new(seed);
    let n_conns = rng.range(2, 4) as usize;
    let mut conns = vec![];
    for _ in 0..n_conns {
        match Conn::connect(srv.port) {
            Ok(c) => conns.push(c),
            Err(e) => return rep.inconclusive(format!("connect failed: {e}")),
        }
    }
    let w = World::new(cfg.buckets, cfg.partitions, cfg.strict_versioning);
    let mut h = Hist { rep, srv, conns, w, rng, seed, step: 0, recent: VecDeque::new(), stop: None, used_ids: HashSet::new(), kinds_seen: HashSet::new() };
    // a few partition keys shared by several streams
    for _ in 0..h.rng.range(2, 5) {
        let k = Uuid::from_u128(((h.rng.next_u64() as u128) << 64) | h.rng.next_u64() as u128);
        h.w.keys.push(k);
    }
    while h.step < max_steps && h.stop.is_none() && args.elapsed_s() < deadline_s {
        h.one_step();
        if !h.srv.alive() && h.stop.is_none() {
            let st = h.srv.exit_status();
            let tail = h.srv.log_tail(400);
            if tail.contains("Address already in use") {
                h.rep.inconclusive(format!("the server lost its port to another process: {tail}"));
                h.stop = Some("port lost".into());
                break;
            }
            h.violation("C22:server:died-between-commands", format!("the server process exited ({st}); log tail: {tail}"), &[b("-")], "server keeps running", &st);
            h.stop = Some("server died".into());
        }
    }
    h.rep.count("histories", 1);
    h.rep.count(&format!("histories.{profile}"), 1);
    h.rep.count(if cfg.strict_versioning { "histories.strict" } else { "histories.non_strict" }, 1);
    h.rep.max("events_in_model", h.w.model.total_events() as u64);
    h.rep.count("distinct_request_classes_per_history", h.kinds_seen.len() as u64);
    let panics = h.srv.panics_since(0);
    h.rep.count("server_panics_logged", panics.len() as u64);
    if h.rep.want_sample() {
        let s = json!({"history_seed": seed, "cfg": cfg.to_json(), "commands": h.step, "connections": n_conns, "model": h.w.summary(), "last_commands": h.recent.iter().collect::<Vec<_>>(), "stopped": h.stop});
        h.rep.sample(s);
    }
    if let Some(why) = &h.stop {
        h.rep.count(&format!("histories_stopped.{}", why.replace(' ', "_")), 1);
    }
    drop(h); // kills the server, removes its directory
}

pub fn run(args: &Args, rep: &mut Report) {
    vpc::quiet_panics();
    let r = std::panic::catch_unwind(std::panic::AssertUnwindSafe(|| run_inner(args, rep)));
    if r.is_err() {
        rep.inconclusive(format!("harness panic: {}", vpc::last_panic()));
    }
}

fn run_inner(args: &Args, rep: &mut Report) {
    let Some(dev) = args.opts.get("server_dev").cloned() else {
        return rep.inconclusive("no server binary (--opt server_dev=<path>)");
    };
    let release = args.opts.get("server_release").cloned();
    if let Some(r) = args.load_replay() {
        let w = &r["witness"];
        let seed = w["history_seed"].as_u64().unwrap_or(0);
        let profile = w["cfg"]["profile"].as_str().unwrap_or("dev").to_string();
        let step = w["step"].as_u64().unwrap_or(1000);
        let bin = if profile == "release" { release.clone().unwrap_or(dev.clone()) } else { dev.clone() };
        run_history(args, rep, seed, &bin, &profile, step + 5, f64::MAX);
        return;
    }
    let max_steps = args.opt_u64("steps", if args.tier.is_thorough() { 200_000 } else { 6_000 });
    // several histories per shard: different configurations (strict on/off, buckets, partitions)
    let per_history_s = args.opt_u64("history_s", if args.tier.is_thorough() { 45 } else { 14 }) as f64;
    let mut hi = 0u64;
    while args.time_left() && args.budget_s - args.elapsed_s() > 4.0 {
        let seed = args.case_seed(hi);
        let (bin, profile) = match (&release, args.tier.is_thorough() && hi % 2 == 1) {
            (Some(r), true) => (r.clone(), "release"),
            _ => (dev.clone(), "dev"),
        };
        let deadline = (args.elapsed_s() + per_history_s).min(args.budget_s);
        run_history(args, rep, seed, &bin, profile, max_steps, deadline);
        hi += 1;
    }
}
