//! The reference side of C22: the event-store model (vpc::model) driven with the
//! same requests as the server, plus what the harness has to learn from replies
//! (server-generated event ids, transaction ids, "now" timestamps).

use std::collections::{BTreeMap, HashMap};

use sierradb::id::{NAMESPACE_PARTITION_KEY, uuid_to_partition_hash};
use uuid::Uuid;
use vpc::model::{Exp, MEvent, MTxn, Model, Pid};

use crate::resp::V;

pub const TS_LIMIT_MS: u64 = 9_223_372_036_854; // largest millisecond value whose nanoseconds stay below 2^63
pub const TS_OVERFLOW_MS: u64 = 18_446_744_073_709; // largest millisecond value whose nanoseconds fit u64

#[derive(Clone, Debug)]
pub struct StreamInst {
    pub name: String,
    pub key: Uuid,
    pub pid: Pid,
    /// true when the key is the default one (v5 of the stream id): PARTITION_KEY may be omitted
    pub default_key: bool,
}

pub struct World {
    pub partitions: u16,
    pub strict: bool,
    pub model: Model,
    /// server transaction id per model transaction, learnt on first sight
    pub txn_ids: HashMap<usize, String>,
    pub streams: Vec<StreamInst>,
    pub keys: Vec<Uuid>,
    pub next_txn: u128,
    pub next_name: u64,
}

pub fn default_key(stream: &str) -> Uuid {
    Uuid::new_v5(&NAMESPACE_PARTITION_KEY, stream.as_bytes())
}

impl World {
    pub fn new(buckets: u16, partitions: u16, strict: bool) -> World {
        World { partitions, strict, model: Model::new(buckets), txn_ids: HashMap::new(), streams: vec![], keys: vec![], next_txn: 1, next_name: 0 }
    }
    pub fn pid_of_key(&self, key: Uuid) -> Pid {
        uuid_to_partition_hash(key) % self.partitions
    }
    pub fn hash_of_key(&self, key: Uuid) -> u16 {
        uuid_to_partition_hash(key)
    }
    pub fn note_stream(&mut self, name: &str, key: Uuid) {
        let pid = self.pid_of_key(key);
        if !self.streams.iter().any(|s| s.name == name && s.key == key) {
            self.streams.push(StreamInst { name: name.to_string(), key, pid, default_key: key == default_key(name) });
        }
    }
    pub fn exp_of(v: sierradb_protocol::ExpectedVersion) -> Exp {
        match v {
            sierradb_protocol::ExpectedVersion::Any => Exp::Any,
            sierradb_protocol::ExpectedVersion::Exists => Exp::Exists,
            sierradb_protocol::ExpectedVersion::Empty => Exp::Empty,
            sierradb_protocol::ExpectedVersion::Exact(n) => Exp::Exact(n),
        }
    }

    /// Events of a stream (as stored under partition `pid`) with version in [start, end].
    pub fn stream_range(&self, pid: Pid, stream: &str, start: u64, end: Option<u64>) -> Vec<MEvent> {
        self.model.stream_events(pid, stream).into_iter().filter(|e| e.partition_id == pid && e.version >= start && end.map(|x| e.version <= x).unwrap_or(true)).cloned().collect()
    }
    pub fn partition_range(&self, pid: Pid, start: u64, end: Option<u64>) -> Vec<MEvent> {
        self.model.partition_events(pid).iter().filter(|e| e.seq >= start && end.map(|x| e.seq <= x).unwrap_or(true)).cloned().collect()
    }

    /// Compare one encoded event (map) with the model's event. Learns the server's transaction id.
    pub fn check_event(&mut self, v: &V, e: &MEvent) -> Result<(), String> {
        let V::Map(_) = v else { return Err(format!("event is not a map: {}", v.brief())) };
        let text = |k: &str| v.get(k).and_then(|x| x.as_text()).ok_or_else(|| format!("event field {k} missing or not a string: {:?}", v.get(k).map(|x| x.brief())));
        let int = |k: &str| v.get(k).and_then(|x| x.as_int()).ok_or_else(|| format!("event field {k} missing or not an integer: {:?}", v.get(k).map(|x| x.brief())));
        let bytes = |k: &str| v.get(k).and_then(|x| x.as_bytes()).ok_or_else(|| format!("event field {k} missing or not a string"));
        let want_id = Uuid::from_u128(e.event_id).to_string();
        if text("event_id")? != want_id {
            return Err(format!("event_id {} != model {want_id} (partition {} sequence {})", text("event_id")?, e.partition_id, e.seq));
        }
        let mut diffs = vec![];
        if text("partition_key")? != Uuid::from_u128(e.partition_key).to_string() {
            diffs.push(format!("partition_key {} != {}", text("partition_key")?, Uuid::from_u128(e.partition_key)));
        }
        if int("partition_id")? != e.partition_id as i64 {
            diffs.push(format!("partition_id {} != {}", int("partition_id")?, e.partition_id));
        }
        if int("partition_sequence")? != e.seq as i64 {
            diffs.push(format!("partition_sequence {} != {}", int("partition_sequence")?, e.seq));
        }
        if int("stream_version")? != e.version as i64 {
            diffs.push(format!("stream_version {} != {}", int("stream_version")?, e.version));
        }
        if int("timestamp")? != e.timestamp as i64 {
            diffs.push(format!("timestamp {} != {}", int("timestamp")?, e.timestamp));
        }
        if text("stream_id")? != e.stream {
            diffs.push(format!("stream_id {:?} != {:?}", text("stream_id")?, e.stream));
        }
        if text("event_name")? != e.name {
            diffs.push(format!("event_name {:?} != {:?}", text("event_name")?, e.name));
        }
        if bytes("metadata")? != e.metadata {
            diffs.push(format!("metadata differs ({} vs {} bytes)", bytes("metadata")?.len(), e.metadata.len()));
        }
        if bytes("payload")? != e.payload {
            diffs.push(format!("payload differs ({} vs {} bytes)", bytes("payload")?.len(), e.payload.len()));
        }
        let tid = text("transaction_id")?;
        if Uuid::parse_str(&tid).is_err() {
            diffs.push(format!("transaction_id {tid:?} is no uuid"));
        }
        match self.txn_ids.get(&e.txn_index) {
            Some(known) if *known != tid => diffs.push(format!("transaction_id {tid} != {known} seen earlier for the same transaction")),
            Some(_) => {}
            None => {
                if let Some((other, _)) = self.txn_ids.iter().find(|(_, t)| **t == tid) {
                    diffs.push(format!("transaction_id {tid} already belongs to another transaction (#{other})"));
                }
                self.txn_ids.insert(e.txn_index, tid);
            }
        }
        if diffs.is_empty() { Ok(()) } else { Err(diffs.join("; ")) }
    }

    /// Apply a transaction the server has executed although the model would refuse it (keeps both in step).
    pub fn force_apply(&mut self, t: &MTxn) -> bool {
        let mut t2 = t.clone();
        for e in t2.events.iter_mut() {
            e.expected = Exp::Any;
        }
        t2.expected_seq = Exp::Any;
        self.model.apply(&t2).is_ok()
    }

    pub fn summary(&self) -> BTreeMap<String, u64> {
        let mut m = BTreeMap::new();
        m.insert("events".into(), self.model.total_events() as u64);
        m.insert("streams".into(), self.model.streams.len() as u64);
        m.insert("partitions_used".into(), self.model.partitions.len() as u64);
        m
    }
}
