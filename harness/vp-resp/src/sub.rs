//! Subscription scenarios of C22 (ESUB / EPSUB / EACK) on a dedicated connection:
//! subscribe with a documented form, compare the pushed history with the model,
//! acknowledge, append live events through another connection and compare the
//! live pushes. Order is asserted per partition / per stream (cursor order
//! globally); the WINDOW bound is asserted as "no push beyond last_ack + window".

use std::collections::{BTreeMap, VecDeque};
use std::time::Duration;

use uuid::Uuid;
use vpc::model::{MEvent, Pid};

use crate::c21::show;
use crate::c22::{Hist, REPLY_TIMEOUT};
use crate::resp::{Conn, RespErr, V};

fn b(s: &str) -> Vec<u8> {
    s.as_bytes().to_vec()
}

struct Plan {
    cmd: &'static str,
    form: String,
    toks: Vec<Vec<u8>>,
    /// pending expected events per key ("p<pid>" or "s<pid>/<stream>")
    queues: BTreeMap<String, VecDeque<MEvent>>,
    window: u64,
    /// where live appends go: (stream name, key)
    live_targets: Vec<(String, Uuid)>,
    by_stream: bool,
}

fn key_of(by_stream: bool, e: &MEvent) -> String {
    if by_stream { format!("s{}/{}", e.partition_id, e.stream) } else { format!("p{}", e.partition_id) }
}

fn plan(h: &mut Hist) -> Option<Plan> {
    let window_tok = match h.rng.below(4) {
        0 => None,
        1 => Some(1u64),
        2 => Some(2),
        _ => Some(*h.rng.pick(&[3u64, 50, 1000])),
    };
    let window = window_tok.unwrap_or(1000);
    let mut queues: BTreeMap<String, VecDeque<MEvent>> = BTreeMap::new();
    let kind = h.rng.below(8);
    if kind < 4 {
        // ---- partitions -----------------------------------------------------------------------
        let used: Vec<Pid> = h.w.model.partitions.keys().copied().collect();
        if used.is_empty() {
            return None;
        }
        let p = *h.rng.pick(&used);
        let last = h.w.model.partition_seq(p).unwrap_or(0);
        let from = match h.rng.below(4) {
            0 => 0,
            1 => last,
            2 => last + 1,
            _ => h.rng.range(0, last),
        };
        let mut toks = vec![b("EPSUB")];
        let form;
        let mut targets: Vec<Pid> = vec![p];
        match kind {
            0 => {
                toks.push(b(&p.to_string()));
                toks.extend([b("FROM"), b(&from.to_string())]);
                queues.insert(format!("p{p}"), h.w.partition_range(p, from, None).into());
                form = "single-partition-from";
            }
            1 => {
                toks.push(b(&p.to_string()));
                queues.insert(format!("p{p}"), VecDeque::new());
                form = "single-partition-latest";
            }
            2 => {
                // list of partitions, FROM MAP with DEFAULT
                let mut list = vec![p];
                for q in &used {
                    if !list.contains(q) && list.len() < 3 {
                        list.push(*q);
                    }
                }
                targets = list.clone();
                toks.push(b(&list.iter().map(|x| x.to_string()).collect::<Vec<_>>().join(",")));
                if list.len() == 1 {
                    toks.extend([b("FROM"), b(&from.to_string())]);
                    queues.insert(format!("p{p}"), h.w.partition_range(p, from, None).into());
                    form = "single-partition-from";
                } else {
                    toks.extend([b("FROM"), b("MAP"), b(&format!("{p}={from}")), b("DEFAULT"), b("0")]);
                    for q in &list {
                        let f = if *q == p { from } else { 0 };
                        queues.insert(format!("p{q}"), h.w.partition_range(*q, f, None).into());
                    }
                    form = "partition-list-from-map-default";
                }
            }
            _ => {
                toks.push(b("*"));
                toks.extend([b("FROM"), b(&from.to_string())]);
                for q in 0..h.w.partitions {
                    queues.insert(format!("p{q}"), h.w.partition_range(q, from, None).into());
                }
                form = "all-partitions-from";
            }
        }
        if let Some(w) = window_tok {
            toks.extend([b("WINDOW"), b(&w.to_string())]);
        }
        let live_targets = h.w.streams.iter().filter(|s| targets.contains(&s.pid)).take(2).map(|s| (s.name.clone(), s.key)).collect();
        Some(Plan { cmd: "EPSUB", form: form.into(), toks, queues, window, live_targets, by_stream: false })
    } else {
        // ---- streams --------------------------------------------------------------------------
        if h.w.streams.is_empty() {
            return None;
        }
        let s = h.rng.pick(&h.w.streams).clone();
        let last = h.w.model.stream_version(s.pid, &s.name).unwrap_or(0);
        let from = match h.rng.below(3) {
            0 => 0,
            1 => last,
            _ => h.rng.range(0, last),
        };
        let mut toks = vec![b("ESUB"), b(&s.name)];
        if !s.default_key {
            toks.extend([b("PARTITION_KEY"), b(&s.key.to_string())]);
        }
        let form;
        let mut live = vec![(s.name.clone(), s.key)];
        match kind {
            4 => {
                queues.insert(format!("s{}/{}", s.pid, s.name), VecDeque::new());
                form = "single-stream-latest";
            }
            5 | 6 => {
                toks.extend([b("FROM"), b(&from.to_string())]);
                queues.insert(format!("s{}/{}", s.pid, s.name), h.w.stream_range(s.pid, &s.name, from, None).into());
                form = "single-stream-from";
            }
            _ => {
                // two streams, FROM <n> for all
                let Some(s2) = h.w.streams.iter().find(|x| x.name != s.name).cloned() else { return None };
                toks.push(b(&s2.name));
                if !s2.default_key {
                    toks.extend([b("PARTITION_KEY"), b(&s2.key.to_string())]);
                }
                toks.extend([b("FROM"), b("0")]);
                queues.insert(format!("s{}/{}", s.pid, s.name), h.w.stream_range(s.pid, &s.name, 0, None).into());
                queues.insert(format!("s{}/{}", s2.pid, s2.name), h.w.stream_range(s2.pid, &s2.name, 0, None).into());
                live.push((s2.name.clone(), s2.key));
                form = "two-streams-from";
            }
        }
        if let Some(w) = window_tok {
            if form != "single-stream-latest" || h.rng.chance(1, 2) {
                toks.extend([b("WINDOW"), b(&w.to_string())]);
            }
        }
        let window = if toks.iter().any(|t| t == b"WINDOW") { window } else { 1000 };
        Some(Plan { cmd: "ESUB", form: form.into(), toks, queues, window, live_targets: live, by_stream: true })
    }
}

/// ESUB forms with a FROM or WINDOW clause are known to be parsed as something else (C21: the clause words become
/// stream ids, the subscription is an unbounded "latest" one): whatever goes wrong with their pushes is one finding.
fn sig_for(p: &Plan, symptom: &str, phase: &str) -> String {
    if p.cmd == "ESUB" && p.toks.iter().any(|t| t.eq_ignore_ascii_case(b"FROM") || t.eq_ignore_ascii_case(b"WINDOW")) {
        "C22:ESUB:pushes-differ-from-model:form-with-FROM-or-WINDOW-clause".to_string()
    } else if phase.is_empty() {
        format!("C22:{}:{symptom}:{}", p.cmd, p.form)
    } else {
        format!("C22:{}:{symptom}:{}:{phase}", p.cmd, p.form)
    }
}

struct Run {
    conn: Conn,
    sub_id: String,
    next_cursor: u64,
    last_ack: Option<u64>,
}

/// Deliver what the window allows; Err(()) = scenario over (violation or trouble already recorded).
fn drain(h: &mut Hist, p: &mut Plan, r: &mut Run, phase: &str) -> Result<(), ()> {
    loop {
        let pending: u64 = p.queues.values().map(|q| q.len() as u64).sum();
        let allowed_total = match r.last_ack {
            None => p.window,
            Some(a) => a.saturating_add(p.window).saturating_add(1),
        };
        let may = allowed_total.saturating_sub(r.next_cursor);
        let target = pending.min(may);
        for _ in 0..target {
            let v = match r.conn.read_push(Duration::from_millis(2500)) {
                Ok(v) => v,
                Err(RespErr::Timeout) => {
                    let left: Vec<String> = p.queues.iter().filter(|(_, q)| !q.is_empty()).map(|(k, q)| format!("{k}: {} pending from position {}", q.len(), if p.by_stream { q[0].version } else { q[0].seq })).collect();
                    h.violation(
                        &sig_for(p, "expected-event-not-pushed", phase),
                        format!("after `{}` the model prescribes further pushes ({}) but none arrived within 2.5 s ({} delivered so far, window {})", show(&p.toks), left.join("; "), r.next_cursor, p.window),
                        &p.toks,
                        &left.join("; "),
                        "no push",
                    );
                    return Err(());
                }
                Err(e) => {
                    h.lost(None, &p.toks, &format!("{}:{phase}", p.form), e);
                    return Err(());
                }
            };
            h.rep.count("pushes_checked", 1);
            let V::Push(items) = &v else { return Err(()) };
            let ok_shape = items.len() == 4 && items[0].as_text().as_deref() == Some("message") && items[1].as_text().as_deref() == Some(r.sub_id.as_str());
            if !ok_shape {
                h.violation(&format!("C22:{}:push-shape", p.cmd), format!("push after `{}` is {}", show(&p.toks), v.brief()), &p.toks, "[message, subscription id, cursor, event]", &v.brief());
                return Err(());
            }
            if items[2].as_int() != Some(r.next_cursor as i64) {
                h.violation(&sig_for(p, "push-cursor-out-of-order", ""), format!("push cursor {:?}, expected {} after `{}`", items[2].as_int(), r.next_cursor, show(&p.toks)), &p.toks, &r.next_cursor.to_string(), &items[2].brief());
                return Err(());
            }
            r.next_cursor += 1;
            let ev = &items[3];
            let pid = ev.get("partition_id").and_then(|x| x.as_int()).unwrap_or(-1);
            let stream = ev.get("stream_id").and_then(|x| x.as_text()).unwrap_or_default();
            let key = if p.by_stream { format!("s{pid}/{stream}") } else { format!("p{pid}") };
            // a subscription without a start position ("latest") that is sent events stored before it was created
            if p.form.ends_with("-latest") {
                let front = p.queues.get(&key).and_then(|q| q.front()).map(|e| if p.by_stream { e.version } else { e.seq });
                let got_pos = if p.by_stream { ev.get("stream_version") } else { ev.get("partition_sequence") }.and_then(|x| x.as_int()).unwrap_or(-1);
                let known_older = p.queues.contains_key(&key) && got_pos >= 0 && front.map(|f| (got_pos as u64) < f).unwrap_or(true) && ev.get("event_id").and_then(|x| x.as_text()).and_then(|s| Uuid::parse_str(&s).ok()).map(|id| h.w.model.event_by_id(id.as_u128()).is_some()).unwrap_or(false);
                if known_older {
                    h.violation(
                        &sig_for(p, "latest-subscription-replays-older-events", ""),
                        format!("`{}` (no start position = from latest) pushed the event at position {got_pos} of {key}, which was appended and acknowledged before the subscription was created{}", show(&p.toks), front.map(|f| format!("; the first event appended after subscribing is at position {f}")).unwrap_or_default()),
                        &p.toks,
                        "only events appended after the subscription",
                        &ev.brief(),
                    );
                    return Err(());
                }
            }
            let Some(want) = p.queues.get_mut(&key).and_then(|q| q.pop_front()) else {
                h.violation(
                    &sig_for(p, "unexpected-push", phase),
                    format!("`{}` pushed an event of {key} (sequence {:?}, version {:?}) that the model does not prescribe next", show(&p.toks), ev.get("partition_sequence").and_then(|x| x.as_int()), ev.get("stream_version").and_then(|x| x.as_int())),
                    &p.toks,
                    "no such push",
                    &ev.brief(),
                );
                return Err(());
            };
            if let Err(d) = h.w.check_event(ev, &want) {
                h.violation(&sig_for(p, "push-differs-from-model", phase), format!("`{}`: pushed event differs: {d}", show(&p.toks)), &p.toks, &format!("{}@{}", want.version, want.seq), &ev.brief());
                return Err(());
            }
        }
        let pending: u64 = p.queues.values().map(|q| q.len() as u64).sum();
        // nothing more may arrive now: either everything was delivered or the window is full
        match r.conn.read_push(Duration::from_millis(if pending > 0 { 150 } else { 40 })) {
            Err(RespErr::Timeout) => {}
            Ok(v) => {
                let older = p.form.ends_with("-latest")
                    && matches!(&v, V::Push(items) if items.len() == 4 && items[3].get("event_id").and_then(|x| x.as_text()).and_then(|s| Uuid::parse_str(&s).ok()).map(|id| h.w.model.event_by_id(id.as_u128()).is_some()).unwrap_or(false));
                let sub = if older { "latest-subscription-replays-older-events" } else if pending > 0 { "push-beyond-window" } else { "unexpected-push" };
                let phase = if older { "" } else { phase };
                h.violation(
                    &sig_for(p, sub, phase),
                    format!("`{}`: a push arrived although {} (cursor {}, last ack {:?}, window {}): {}", show(&p.toks), if pending > 0 { "the window is full" } else { "the model has nothing more to deliver" }, r.next_cursor, r.last_ack, p.window, v.brief()),
                    &p.toks,
                    "no push",
                    &v.brief(),
                );
                return Err(());
            }
            Err(e) => {
                h.lost(None, &p.toks, &format!("{}:{phase}", p.form), e);
                return Err(());
            }
        }
        if pending == 0 {
            return Ok(());
        }
        // acknowledge everything delivered so far
        let cur = r.next_cursor - 1;
        let ack = vec![b("EACK"), b(&r.sub_id), b(&cur.to_string())];
        h.rep.count("commands.EACK", 1);
        h.rep.evaluations += 1;
        match r.conn.request(&ack, REPLY_TIMEOUT) {
            Ok(V::Simple(s)) if s == "OK" => {
                r.last_ack = Some(cur);
                h.rep.count("eack_ok", 1);
            }
            Ok(other) => {
                h.violation(&format!("C22:EACK:valid-ack-rejected:{}", p.form), format!("`{}` on the subscription of `{}` answered {}", show(&ack), show(&p.toks), other.brief()), &ack, "+OK", &other.brief());
                return Err(());
            }
            Err(e) => {
                h.lost(None, &ack, "valid-ack", e);
                return Err(());
            }
        }
    }
}

pub fn scenario(h: &mut Hist) {
    let Some(mut p) = plan(h) else { return };
    h.rep.count("subscription_scenarios", 1);
    h.rep.count(&format!("subscriptions.{}", p.form), 1);
    h.rep.nontrivial(&("sub", &p.toks, p.queues.values().map(|q| q.len()).sum::<usize>()));
    h.step += 1;
    h.rep.evaluations += 1;
    h.rep.count(&format!("commands.{}", p.cmd), 1);
    if h.recent.len() >= 8 {
        h.recent.pop_front();
    }
    h.recent.push_back(format!("sub: {}", show(&p.toks)));
    let mut conn = match Conn::connect(h.srv.port) {
        Ok(c) => c,
        Err(e) => return h.rep.inconclusive(format!("subscription connection failed: {e}")),
    };
    let reply = match conn.request(&p.toks, REPLY_TIMEOUT) {
        Ok(v) => v,
        Err(e) => return h.lost(None, &p.toks, &p.form, e),
    };
    let sub_id = match &reply {
        V::Simple(s) if Uuid::parse_str(s).is_ok() => s.clone(),
        other => {
            let sym = if other.is_err() { "valid-subscription-rejected" } else { "subscribe-reply-shape" };
            return h.violation(&format!("C22:{}:{sym}:{}", p.cmd, p.form), format!("`{}` answered {}", show(&p.toks), other.brief()), &p.toks, "subscription id", &other.brief());
        }
    };
    match conn.read_push(Duration::from_secs(5)) {
        Ok(V::Push(items)) if items.len() == 3 && items[0].as_text().as_deref() == Some("subscribe") && items[1].as_text().as_deref() == Some(sub_id.as_str()) => {}
        other => {
            return h.violation(&format!("C22:{}:subscribe-push-missing", p.cmd), format!("`{}`: expected the subscribe confirmation push, got {other:?}", show(&p.toks)), &p.toks, "[subscribe, id, count]", &format!("{other:?}"));
        }
    }
    let mut r = Run { conn, sub_id, next_cursor: 0, last_ack: None };
    if drain(h, &mut p, &mut r, "history").is_err() {
        return;
    }
    // live events through the ordinary connections
    let n_live = h.rng.range(1, 3);
    for _ in 0..n_live {
        if p.live_targets.is_empty() || h.stop.is_some() {
            break;
        }
        let (name, key) = h.rng.pick(&p.live_targets).clone();
        let stored = h.append_for_sub(&name, key);
        for e in stored {
            let k = key_of(p.by_stream, &e);
            if let Some(q) = p.queues.get_mut(&k) {
                q.push_back(e);
            }
        }
        if drain(h, &mut p, &mut r, "live").is_err() {
            return;
        }
    }
    h.rep.count("subscription_scenarios_completed", 1);
}
