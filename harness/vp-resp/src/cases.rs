//! Generator of documented command forms (canonical, role-annotated) and of
//! near-miss variants outside the documented grammar.

use vpc::Rng;

use crate::gram::*;

pub const COMMANDS: [&str; 12] = ["EAPPEND", "EMAPPEND", "EGET", "ESCAN", "EPSCAN", "ESVER", "EPSEQ", "ESUB", "EPSUB", "EACK", "HELLO", "PING"];

fn append_opts(b: &mut Builder, rng: &mut Rng, with_pk: bool) {
    // every subset of the optional clauses, biased towards several at once
    let p = *rng.pick(&[1u64, 2, 3]);
    if rng.chance(p, 4) {
        b.clause(0, "EVENT_ID", vec![uuid_val(gen_uuid(rng))]);
    }
    if with_pk && rng.chance(p, 4) {
        b.clause(1, "PARTITION_KEY", vec![uuid_val(gen_uuid(rng))]);
    }
    if rng.chance(p, 4) {
        let v = match rng.below(5) {
            0 => word_val("ANY"),
            1 => word_val("EXISTS"),
            2 => word_val("EMPTY"),
            _ => num_val(gen_u64(rng)),
        };
        b.clause(2, "EXPECTED_VERSION", vec![v]);
    }
    if rng.chance(p, 4) {
        b.clause(3, "TIMESTAMP", vec![num_val(gen_u64(rng))]);
    }
    if rng.chance(p, 4) {
        b.clause(4, "PAYLOAD", vec![bytes_val(&gen_bytes(rng))]);
    }
    if rng.chance(p, 4) {
        b.clause(5, "METADATA", vec![bytes_val(&gen_bytes(rng))]);
    }
}

fn range_start(b: &mut Builder, rng: &mut Rng, name: &'static str) {
    if rng.chance(1, 3) { b.pos(Role::PosRange(name), b"-") } else { b.pos(Role::PosRange(name), gen_u64(rng).to_string().as_bytes()) }
}
fn range_end(b: &mut Builder, rng: &mut Rng, name: &'static str) {
    if rng.chance(1, 3) { b.pos(Role::PosRange(name), b"+") } else { b.pos(Role::PosRange(name), gen_u64(rng).to_string().as_bytes()) }
}
fn partition_pos(b: &mut Builder, rng: &mut Rng) {
    if rng.chance(1, 2) { b.num_pos("partition", NumTy::U16, gen_pid(rng)) } else { b.uuid_pos("partition", gen_uuid(rng)) }
}

fn distinct_streams(rng: &mut Rng, n: usize) -> Vec<String> {
    let mut v: Vec<String> = vec![];
    while v.len() < n {
        let s = gen_stream(rng);
        if !v.contains(&s) {
            v.push(s);
        }
    }
    v
}

fn window_clause(b: &mut Builder, rng: &mut Rng) {
    if rng.chance(1, 2) {
        b.clause(11, "WINDOW", vec![num_val(gen_u64_min1(rng))]);
    }
}

/// One documented command form, canonical (upper-case keywords, documentation order).
pub fn gen_valid(rng: &mut Rng, cmd: &str) -> Vec<Tok> {
    let mut b = Builder::new(cmd);
    match cmd {
        "EAPPEND" => {
            b.pos(Role::Stream, gen_stream(rng).as_bytes());
            b.pos(Role::Name, gen_name(rng).as_bytes());
            append_opts(&mut b, rng, true);
        }
        "EMAPPEND" => {
            b.uuid_pos("partition_key", gen_uuid(rng));
            let n = rng.range(1, 5);
            for _ in 0..n {
                b.begin_group();
                b.pos(Role::Stream, gen_stream(rng).as_bytes());
                b.pos(Role::Name, gen_name(rng).as_bytes());
                append_opts(&mut b, rng, false);
            }
            b.end_groups();
        }
        "EGET" => b.uuid_pos("event_id", gen_uuid(rng)),
        "ESCAN" => {
            b.pos(Role::Stream, gen_stream(rng).as_bytes());
            range_start(&mut b, rng, "start");
            range_end(&mut b, rng, "end");
            if rng.chance(1, 2) {
                b.clause(0, "PARTITION_KEY", vec![uuid_val(gen_uuid(rng))]);
            }
            if rng.chance(1, 2) {
                b.clause(1, "COUNT", vec![num_val(gen_u64(rng))]);
            }
        }
        "EPSCAN" => {
            partition_pos(&mut b, rng);
            range_start(&mut b, rng, "start");
            range_end(&mut b, rng, "end");
            if rng.chance(1, 2) {
                b.clause(0, "COUNT", vec![num_val(gen_u64(rng))]);
            }
        }
        "ESVER" => {
            b.pos(Role::Stream, gen_stream(rng).as_bytes());
            if rng.chance(1, 2) {
                b.clause(0, "PARTITION_KEY", vec![uuid_val(gen_uuid(rng))]);
            }
        }
        "EPSEQ" => partition_pos(&mut b, rng),
        "ESUB" => {
            let n = if rng.chance(1, 2) { 1 } else { rng.range(2, 5) as usize };
            let streams = distinct_streams(rng, n);
            for s in &streams {
                b.begin_group();
                b.pos(Role::Stream, s.as_bytes());
                if rng.chance(1, 3) {
                    b.clause(0, "PARTITION_KEY", vec![uuid_val(gen_uuid(rng))]);
                }
            }
            b.end_groups();
            match rng.below(if n == 1 { 3 } else { 4 }) {
                0 => {}
                1 => b.clause(10, "FROM", vec![num_val(gen_u64(rng))]),
                2 => b.clause(10, "FROM", vec![word_val("LATEST")]),
                _ => {
                    // FROM MAP <stream>=<ver>... for a non-empty subset of the subscribed streams
                    let mut vals = vec![word_val("MAP")];
                    let mut subset: Vec<&String> = streams.iter().filter(|_| rng.chance(2, 3)).collect();
                    if subset.is_empty() {
                        subset.push(&streams[0]);
                    }
                    for s in subset {
                        vals.push(pair_val(s, gen_u64(rng)));
                    }
                    b.clause(10, "FROM", vals);
                }
            }
            window_clause(&mut b, rng);
        }
        "EPSUB" => {
            let kind = rng.below(3);
            let mut pids: Vec<u16> = vec![];
            match kind {
                0 => b.pos(Role::Selector, b"*"),
                1 => {
                    pids.push(gen_pid(rng));
                    b.pos(Role::Selector, pids[0].to_string().as_bytes());
                }
                _ => {
                    let n = rng.range(2, 5) as usize;
                    while pids.len() < n {
                        let p = gen_pid(rng);
                        if !pids.contains(&p) {
                            pids.push(p);
                        }
                    }
                    let s: Vec<String> = pids.iter().map(|p| p.to_string()).collect();
                    b.pos(Role::Selector, s.join(",").as_bytes());
                }
            }
            // single partition: the documentation only lists FROM <sequence>
            match rng.below(if kind == 1 { 2 } else { 4 }) {
                0 => {}
                1 => b.clause(10, "FROM", vec![num_val(gen_u64(rng))]),
                2 => b.clause(10, "FROM", vec![word_val("LATEST")]),
                _ => {
                    let mut vals = vec![word_val("MAP")];
                    let mut keys: Vec<u16> = if kind == 0 { (0..rng.range(1, 4)).map(|_| gen_pid(rng)).collect() } else { pids.iter().copied().filter(|_| rng.chance(2, 3)).collect() };
                    keys.sort();
                    keys.dedup();
                    if keys.is_empty() {
                        keys.push(pids[0]);
                    }
                    for k in keys {
                        vals.push(pair_val(&k.to_string(), gen_u64(rng)));
                    }
                    if rng.chance(1, 2) {
                        vals.push(word_val("DEFAULT"));
                        vals.push(num_val(gen_u64(rng)));
                    }
                    b.clause(10, "FROM", vals);
                }
            }
            window_clause(&mut b, rng);
        }
        "EACK" => {
            b.uuid_pos("subscription_id", gen_uuid(rng));
            b.num_pos("cursor", NumTy::U64, gen_u64(rng));
        }
        "HELLO" => b.num_pos("version", NumTy::I64, *rng.pick(&[3i64, 3, 2, 0])),
        "PING" => {}
        other => panic!("unknown command {other}"),
    }
    b.toks
}

// ---------------------------------------------------------------------------
// Near misses: token lists outside the documented grammar
// ---------------------------------------------------------------------------

pub const MUTATIONS: [&str; 12] = [
    "missing-value", "from-map-empty", "duplicate", "bad-number", "bad-uuid", "trailing-token", "missing-positional", "bad-stream-id",
    "partition-out-of-range", "map-bad-pair", "default-without-map", "empty-command-args",
];

fn last_clause_id(toks: &[Tok]) -> Option<u32> {
    toks.last().map(|t| t.clause).filter(|c| *c != 0)
}

/// Apply mutation `m` to a valid token list; returns the signature class of the
/// near miss, or None when the mutation does not apply to this form.
pub fn mutate(rng: &mut Rng, cmd: &str, toks: &mut Vec<Tok>, m: &str) -> Option<String> {
    let raw = |s: &str, role: Role, like: &Tok| Tok { b: s.as_bytes().to_vec(), canon: s.as_bytes().to_vec(), role, ..like.clone() };
    match m {
        "missing-value" => {
            // the last optional clause loses everything after its keyword
            let c = last_clause_id(toks)?;
            let first = toks.iter().position(|t| t.clause == c)?;
            toks.truncate(first + 1);
            Some("missing-value".into())
        }
        "from-map-empty" => {
            let c = toks.iter().find(|t| t.role == Role::Word && t.canon == b"MAP")?.clause;
            toks.retain(|t| !(t.clause == c && t.role == Role::Pair));
            Some("from-map-without-pairs".into())
        }
        "duplicate" => {
            let mut ids: Vec<u32> = toks.iter().map(|t| t.clause).filter(|c| *c != 0).collect();
            ids.dedup();
            if ids.is_empty() {
                return None;
            }
            let c = *rng.pick(&ids);
            let block: Vec<Tok> = toks.iter().filter(|t| t.clause == c).cloned().collect();
            let end = toks.iter().rposition(|t| t.clause == c)? + 1;
            let kw = block[0].kw;
            let first_val = block.get(1).map(|t| t.canon.clone()).unwrap_or_default();
            let mut dup = block.clone();
            // the repeated option carries a different value where that is easy
            if rng.chance(1, 2) {
                for t in dup.iter_mut() {
                    match t.role {
                        Role::Num(_) => {
                            t.b = b"7".to_vec();
                            t.canon = b"7".to_vec();
                        }
                        Role::Bytes => {
                            t.b = b"other".to_vec();
                            t.canon = b"other".to_vec();
                        }
                        _ => {}
                    }
                }
            }
            toks.splice(end..end, dup);
            let sub = match kw {
                "EXPECTED_VERSION" if first_val.eq_ignore_ascii_case(b"ANY") => ":first-value-any",
                "PAYLOAD" | "METADATA" if first_val.is_empty() => ":first-value-empty",
                _ => "",
            };
            Some(format!("duplicate-option:{kw}{sub}"))
        }
        "bad-number" => {
            let idx: Vec<usize> = toks
                .iter()
                .enumerate()
                .filter(|(_, t)| matches!(t.role, Role::Num(_) | Role::PosNum(..)) || (matches!(t.role, Role::PosRange(_)) && t.canon != b"-" && t.canon != b"+"))
                .map(|(i, _)| i)
                .collect();
            if idx.is_empty() {
                return None;
            }
            let i = *rng.pick(&idx);
            let ty = match toks[i].role {
                Role::Num(t) | Role::PosNum(_, t) => t,
                _ => NumTy::U64,
            };
            let (text, class) = match (rng.below(3), ty) {
                (0, NumTy::I64) => ("9223372036854775808", "overflow"),
                (0, NumTy::U16) => ("65536", "overflow"),
                (0, NumTy::U64) => ("18446744073709551616", "overflow"),
                (1, NumTy::I64) => ("3x", "garbage"),
                (1, _) => ("-1", "negative"),
                _ => (*rng.pick(&["12x", "", "1.5", "0x10", "١٢"]), "garbage"),
            };
            toks[i].b = text.as_bytes().to_vec();
            toks[i].canon = toks[i].b.clone();
            let _ = class;
            Some("invalid-number".into())
        }
        "bad-uuid" => {
            let idx: Vec<usize> = toks.iter().enumerate().filter(|(_, t)| matches!(t.role, Role::Uuid | Role::PosUuid(_))).map(|(i, _)| i).collect();
            if idx.is_empty() {
                return None;
            }
            let i = *rng.pick(&idx);
            // a partition selector that is no uuid could still be a partition id: use text that is neither
            let text = match rng.below(3) {
                0 => "not-a-uuid".to_string(),
                1 => {
                    let mut s = toks[i].canon_str();
                    s.pop();
                    s
                }
                _ => "550e8400-e29b-41d4-a716-44665544000g".to_string(),
            };
            toks[i].b = text.into_bytes();
            toks[i].canon = toks[i].b.clone();
            Some("invalid-uuid".into())
        }
        "trailing-token" => {
            // ESUB without clauses: another token is just another stream id (valid)
            if cmd == "ESUB" && last_clause_id(toks).map(|c| toks.iter().find(|t| t.clause == c).unwrap().group != 0).unwrap_or(true) {
                return None;
            }
            let like = toks.last()?.clone();
            toks.push(Tok { clause: 0, kw: "", group: 0, ..raw("extra", Role::Bytes, &like) });
            Some("trailing-token".into())
        }
        "missing-positional" => {
            toks.retain(|t| t.clause == 0);
            if cmd == "EMAPPEND" {
                // keep the first event only
                toks.retain(|t| t.group <= 1);
            }
            if cmd == "ESUB" {
                toks.retain(|t| t.group <= 1);
            }
            if toks.len() < 2 {
                return None;
            }
            toks.pop();
            Some("missing-positional".into())
        }
        "bad-stream-id" => {
            let idx: Vec<usize> = toks.iter().enumerate().filter(|(_, t)| t.role == Role::Stream).map(|(i, _)| i).collect();
            if idx.is_empty() {
                return None;
            }
            // FROM MAP pairs refer to stream names: leave those forms alone
            if toks.iter().any(|t| t.role == Role::Pair) {
                return None;
            }
            let i = *rng.pick(&idx);
            let text = if rng.chance(1, 2) { String::new() } else { "x".repeat(65) };
            toks[i].b = text.into_bytes();
            toks[i].canon = toks[i].b.clone();
            Some("invalid-stream-id-length".into())
        }
        "partition-out-of-range" => {
            let i = toks.iter().position(|t| t.role == Role::Selector && t.canon != b"*" || matches!(t.role, Role::PosNum("partition", _)))?;
            let s = toks[i].canon_str();
            let bad = *rng.pick(&["65536", "-1", "70000"]);
            let text = if s.contains(',') { format!("{},{bad}", s.split(',').next().unwrap()) } else { bad.to_string() };
            toks[i].b = text.into_bytes();
            toks[i].canon = toks[i].b.clone();
            Some("partition-id-out-of-range".into())
        }
        "map-bad-pair" => {
            let idx: Vec<usize> = toks.iter().enumerate().filter(|(_, t)| t.role == Role::Pair).map(|(i, _)| i).collect();
            if idx.is_empty() {
                return None;
            }
            let i = *rng.pick(&idx);
            let s = toks[i].canon_str();
            let (k, _) = s.split_once('=').unwrap();
            let text = match rng.below(4) {
                0 => k.to_string() + "x",
                1 => format!("{k}="),
                2 => format!("{k}=-1"),
                _ => format!("{k}=1x"),
            };
            // without '=' a stream-id-like token after MAP could be read as ... nothing documented: still outside the grammar
            toks[i].b = text.into_bytes();
            toks[i].canon = toks[i].b.clone();
            Some("from-map-malformed-pair".into())
        }
        "default-without-map" => {
            if cmd != "EPSUB" {
                return None;
            }
            let c = toks.iter().find(|t| t.kw == "FROM")?.clause;
            if toks.iter().any(|t| t.clause == c && t.canon == b"MAP") {
                return None;
            }
            let end = toks.iter().rposition(|t| t.clause == c)? + 1;
            let like = toks[end - 1].clone();
            toks.splice(end..end, vec![raw("DEFAULT", Role::Word, &like), raw("3", Role::Num(NumTy::U64), &like)]);
            Some("default-without-map".into())
        }
        "empty-command-args" => {
            // only the command name, for commands that require arguments
            if cmd == "PING" {
                return None;
            }
            toks.truncate(1);
            Some("missing-positional".into())
        }
        _ => None,
    }
}
