//! Runs the server's own parsers exactly as `Command::handle` does
//! (`<Cmd>::parser().skip(eof()).parse(frame_stream(args))`) on an argument
//! array of bulk strings and normalises the parsed request's public fields.

use bytes::Bytes;
use combine::{Parser, eof};
use redis_protocol::resp3::types::BytesFrame;
use sierradb_protocol::ExpectedVersion;
use sierradb_server::parser::frame_stream;
use sierradb_server::request::eack::EAck;
use sierradb_server::request::eappend::EAppend;
use sierradb_server::request::eget::EGet;
use sierradb_server::request::emappend::EMAppend;
use sierradb_server::request::epscan::EPScan;
use sierradb_server::request::epseq::EPSeq;
use sierradb_server::request::epsub::EPSub;
use sierradb_server::request::escan::EScan;
use sierradb_server::request::esub::ESub;
use sierradb_server::request::esver::ESVer;
use sierradb_server::request::hello::Hello;
use sierradb_server::request::ping::Ping;
use sierradb_server::request::{Command, PartitionSelector, RangeValue};
use uuid::Uuid;

use crate::want::{Fields, matcher_fields};

pub enum ParseOutcome {
    /// normalised fields + positional strings (kind, value) of the parsed request
    Ok(Fields, Vec<(&'static str, String)>),
    UnknownCommand(String),
    Err(String),
}

fn opt_uuid(u: &Option<Uuid>) -> String {
    u.map(|u| u.hyphenated().to_string()).unwrap_or("none".into())
}
fn opt_u64(n: &Option<u64>) -> String {
    n.map(|n| n.to_string()).unwrap_or("none".into())
}
fn ev(v: &ExpectedVersion) -> String {
    match v {
        ExpectedVersion::Any => "any".into(),
        ExpectedVersion::Exists => "exists".into(),
        ExpectedVersion::Empty => "empty".into(),
        ExpectedVersion::Exact(n) => format!("exact({n})"),
    }
}
fn rv(v: &RangeValue) -> String {
    match v {
        RangeValue::Start => "start".into(),
        RangeValue::End => "end".into(),
        RangeValue::Value(n) => format!("value({n})"),
    }
}
fn ps(p: &PartitionSelector) -> String {
    match p {
        PartitionSelector::ById(id) => format!("id({id})"),
        PartitionSelector::ByKey(k) => format!("key({})", k.hyphenated()),
    }
}

fn command_name(c: &Command) -> &'static str {
    match c {
        Command::EAck => "EACK",
        Command::EAppend => "EAPPEND",
        Command::EGet => "EGET",
        Command::EMAppend => "EMAPPEND",
        Command::EPScan => "EPSCAN",
        Command::EPSeq => "EPSEQ",
        Command::EPSub => "EPSUB",
        Command::ESVer => "ESVER",
        Command::EScan => "ESCAN",
        Command::ESub => "ESUB",
        Command::Hello => "HELLO",
        Command::Info => "INFO",
        Command::Ping => "PING",
    }
}

macro_rules! run {
    ($t:ty, $args:expr) => {
        <$t>::parser().skip(eof()).parse(frame_stream($args)).map(|(c, _)| c).map_err(|e| e.to_string())
    };
}

/// `tokens[0]` is the command name, the rest are its arguments (bulk strings).
pub fn parse_tokens(tokens: &[Vec<u8>]) -> ParseOutcome {
    let frames: Vec<BytesFrame> = tokens.iter().map(|t| BytesFrame::BlobString { data: Bytes::from(t.clone()), attributes: None }).collect();
    let cmd = match Command::try_from(&frames[0]) {
        Ok(c) => c,
        Err(e) => return ParseOutcome::UnknownCommand(e),
    };
    let args = &frames[1..];
    let mut f = Fields::new();
    let mut pos: Vec<(&'static str, String)> = vec![];
    f.insert("command".into(), command_name(&cmd).into());
    let r: Result<(), String> = (|| {
        match cmd {
            Command::EAppend => {
                let c: EAppend = run!(EAppend, args)?;
                f.insert("stream_id".into(), c.stream_id.to_string());
                f.insert("event_name".into(), c.event_name.clone());
                f.insert("event_id".into(), opt_uuid(&c.event_id));
                f.insert("partition_key".into(), opt_uuid(&c.partition_key));
                f.insert("expected_version".into(), ev(&c.expected_version));
                f.insert("timestamp".into(), opt_u64(&c.timestamp));
                f.insert("payload".into(), vpc::hex(&c.payload));
                f.insert("metadata".into(), vpc::hex(&c.metadata));
                pos.push(("stream-id", c.stream_id.to_string()));
                pos.push(("event-name", c.event_name));
            }
            Command::EMAppend => {
                let c: EMAppend = run!(EMAppend, args)?;
                f.insert("partition_key".into(), c.partition_key.hyphenated().to_string());
                f.insert("events.len".into(), c.events.len().to_string());
                for (i, e) in c.events.iter().enumerate() {
                    let p = format!("events[{i}].");
                    f.insert(format!("{p}stream_id"), e.stream_id.to_string());
                    f.insert(format!("{p}event_name"), e.event_name.clone());
                    f.insert(format!("{p}event_id"), opt_uuid(&e.event_id));
                    f.insert(format!("{p}expected_version"), ev(&e.expected_version));
                    f.insert(format!("{p}timestamp"), opt_u64(&e.timestamp));
                    f.insert(format!("{p}payload"), vpc::hex(&e.payload));
                    f.insert(format!("{p}metadata"), vpc::hex(&e.metadata));
                    pos.push(("stream-id", e.stream_id.to_string()));
                    pos.push(("event-name", e.event_name.clone()));
                }
            }
            Command::EGet => {
                let c: EGet = run!(EGet, args)?;
                f.insert("event_id".into(), c.event_id.hyphenated().to_string());
            }
            Command::EScan => {
                let c: EScan = run!(EScan, args)?;
                f.insert("stream_id".into(), c.stream_id.to_string());
                f.insert("start".into(), rv(&c.start_version));
                f.insert("end".into(), rv(&c.end_version));
                f.insert("partition_key".into(), opt_uuid(&c.partition_key));
                f.insert("count".into(), opt_u64(&c.count));
                pos.push(("stream-id", c.stream_id.to_string()));
            }
            Command::EPScan => {
                let c: EPScan = run!(EPScan, args)?;
                f.insert("partition".into(), ps(&c.partition));
                f.insert("start".into(), rv(&c.start_sequence));
                f.insert("end".into(), rv(&c.end_sequence));
                f.insert("count".into(), opt_u64(&c.count));
            }
            Command::ESVer => {
                let c: ESVer = run!(ESVer, args)?;
                f.insert("stream_id".into(), c.stream_id.to_string());
                f.insert("partition_key".into(), opt_uuid(&c.partition_key));
                pos.push(("stream-id", c.stream_id.to_string()));
            }
            Command::EPSeq => {
                let c: EPSeq = run!(EPSeq, args)?;
                f.insert("partition".into(), ps(&c.partition));
            }
            Command::ESub => {
                let c: ESub = run!(ESub, args)?;
                match &c.matcher {
                    sierradb_cluster::subscription::SubscriptionMatcher::Stream { stream_id, .. } => pos.push(("stream-id", stream_id.to_string())),
                    sierradb_cluster::subscription::SubscriptionMatcher::Streams { stream_ids, .. } => {
                        let mut v: Vec<String> = stream_ids.iter().map(|(_, s)| s.to_string()).collect();
                        v.sort();
                        for s in v {
                            pos.push(("stream-id", s));
                        }
                    }
                    _ => {}
                }
                f.extend(matcher_fields(&c.matcher, c.window_size));
            }
            Command::EPSub => {
                let c: EPSub = run!(EPSub, args)?;
                f.extend(matcher_fields(&c.matcher, c.window_size));
            }
            Command::EAck => {
                let c: EAck = run!(EAck, args)?;
                f.insert("subscription_id".into(), c.subscription_id.hyphenated().to_string());
                f.insert("cursor".into(), c.cursor.to_string());
            }
            Command::Hello => {
                let c: Hello = run!(Hello, args)?;
                f.insert("version".into(), c.version.to_string());
            }
            Command::Ping => {
                let _c: Ping = run!(Ping, args)?;
            }
            Command::Info => {
                let _ = run!(sierradb_server::request::info::Info, args)?;
            }
        }
        Ok(())
    })();
    match r {
        Ok(()) => ParseOutcome::Ok(f, pos),
        Err(e) => ParseOutcome::Err(e),
    }
}
