//! Client-emitted commands (C21, second half): the argument arrays the Rust
//! client builds for its API calls, fed to the server's parser.
//!
//! * Command builders (`CmdExt for redis::Cmd`, commands.rs/options.rs): the
//!   `redis::Cmd` is obtained without a server and its arguments read back.
//! * `SubscriptionManager` (subscription.rs) only builds its commands inside
//!   async methods on a live connection: those run against a loopback fake RESP
//!   server in this process that records every request array and answers with a
//!   canned reply.

use std::collections::HashMap;
use std::sync::{Arc, Mutex};
use std::time::{Duration, UNIX_EPOCH};

use sierradb_client::{CmdExt, EAppendOptions, EMAppendEvent, SubscriptionManager};
use sierradb_protocol::ExpectedVersion;
use tokio::io::{AsyncReadExt, AsyncWriteExt};
use uuid::Uuid;
use vpc::{Args, Report, Rng, Value, json};

use crate::c21::{Want, judge, show};
use crate::gram::*;
use crate::want::want_from_toks;

struct ClientCase {
    api: &'static str,
    /// what is distinctive about the emitted form (part of the signature)
    form: String,
    cmd: &'static str,
    emitted: Vec<Vec<u8>>,
    /// the request the call denotes, written in the documented grammar
    doc: Vec<Tok>,
    expressible: bool,
}

fn emitted_of(c: &redis::Cmd) -> Vec<Vec<u8>> {
    c.args_iter()
        .map(|a| match a {
            redis::Arg::Simple(b) => b.to_vec(),
            _ => b"<cursor>".to_vec(),
        })
        .collect()
}

fn check(rep: &mut Report, case: ClientCase, seed: u64, mode: &str) {
    rep.evaluations += 1;
    rep.count(&format!("client.{}", case.api), 1);
    rep.nontrivial(&("client", case.api, &case.emitted));
    let want = if case.expressible { Want::Exact(want_from_toks(case.cmd, &case.doc)) } else { Want::Accepted };
    let intended: Vec<String> = case.doc.iter().filter(|t| matches!(t.role, Role::Stream | Role::Name)).map(|t| t.canon_str()).collect();
    if rep.want_sample() && seed % 5 == 0 {
        rep.sample(json!({"family": "client", "api": case.api, "emitted": show(&case.emitted)}));
    }
    let Some(v) = judge(&case.emitted, &want, &intended) else { return };
    let sig = if v.kind.starts_with("keyword-taken-as") {
        format!("C21:client:{}:{}", case.cmd, v.kind)
    } else if v.kind == "rejected" {
        format!("C21:client:{}:emitted-command-rejected:{}", case.cmd, case.form)
    } else {
        format!("C21:client:{}:{}:{}", case.cmd, v.kind, case.form)
    };
    let intended_json = match &want {
        Want::Exact(f) => json!(f),
        _ => json!("accepted (the call denotes a request the documented grammar cannot express)"),
    };
    rep.violation(
        &sig,
        format!("client call {} emits `{}`: {} ({})", case.api, show(&case.emitted), v.kind, v.detail),
        json!({"family": "client", "mode": mode, "case_seed": seed, "api": case.api, "line": show(&case.emitted),
               "tokens_hex": case.emitted.iter().map(|t| vpc::hex(t)).collect::<Vec<_>>(), "intended": intended_json, "observed": v.detail}),
    );
}

// ---------------------------------------------------------------------------
// Command builders (no server needed)
// ---------------------------------------------------------------------------

fn gen_ev(rng: &mut Rng) -> ExpectedVersion {
    match rng.below(5) {
        0 => ExpectedVersion::Any,
        1 => ExpectedVersion::Exists,
        2 => ExpectedVersion::Empty,
        _ => ExpectedVersion::Exact(gen_u64(rng)),
    }
}

fn ev_clause(b: &mut Builder, v: ExpectedVersion) {
    match v {
        ExpectedVersion::Any => {}
        ExpectedVersion::Exists => b.clause(2, "EXPECTED_VERSION", vec![word_val("EXISTS")]),
        ExpectedVersion::Empty => b.clause(2, "EXPECTED_VERSION", vec![word_val("EMPTY")]),
        ExpectedVersion::Exact(n) => b.clause(2, "EXPECTED_VERSION", vec![num_val(n)]),
    }
}

fn nonempty_bytes(rng: &mut Rng) -> Vec<u8> {
    gen_bytes(rng)
}

fn cmd_case(rng: &mut Rng) -> ClientCase {
    type C = redis::Cmd;
    let api_n = rng.below(22);
    match api_n {
        0 | 1 | 2 => {
            let stream = gen_stream(rng);
            let name = gen_name(rng);
            let mut o = EAppendOptions::new();
            let mut b = Builder::new("EAPPEND");
            b.pos(Role::Stream, stream.as_bytes());
            b.pos(Role::Name, name.as_bytes());
            if rng.chance(1, 2) {
                let u = gen_uuid(rng);
                o = o.event_id(u);
                b.clause(0, "EVENT_ID", vec![uuid_val(u)]);
            }
            if rng.chance(1, 2) {
                let u = gen_uuid(rng);
                o = o.partition_key(u);
                b.clause(1, "PARTITION_KEY", vec![uuid_val(u)]);
            }
            let v = gen_ev(rng);
            o = o.expected_version(v);
            ev_clause(&mut b, v);
            if rng.chance(1, 2) {
                let ms = *rng.pick(&[0u64, 1, 1_700_000_000_000, u32::MAX as u64 + 1, 9_223_372_036_854]);
                o = o.timestamp(UNIX_EPOCH + Duration::from_millis(ms));
                b.clause(3, "TIMESTAMP", vec![num_val(ms)]);
            }
            if rng.chance(1, 2) {
                let p = nonempty_bytes(rng);
                o = o.payload(p.clone());
                if !p.is_empty() {
                    b.clause(4, "PAYLOAD", vec![bytes_val(&p)]);
                }
            }
            if rng.chance(1, 2) {
                let p = nonempty_bytes(rng);
                o = o.metadata(p.clone());
                if !p.is_empty() {
                    b.clause(5, "METADATA", vec![bytes_val(&p)]);
                }
            }
            let c = <C as CmdExt>::eappend(stream.as_str(), name.as_str(), o);
            ClientCase { api: "eappend", form: "options".into(), cmd: "EAPPEND", emitted: emitted_of(&c), doc: b.toks, expressible: true }
        }
        3 | 4 | 5 => {
            let pk = gen_uuid(rng);
            let mut b = Builder::new("EMAPPEND");
            b.uuid_pos("partition_key", pk);
            let n = rng.range(1, 5);
            let mut events: Vec<EMAppendEvent<'static>> = vec![];
            for _ in 0..n {
                b.begin_group();
                let stream = gen_stream(rng);
                let name = gen_name(rng);
                b.pos(Role::Stream, stream.as_bytes());
                b.pos(Role::Name, name.as_bytes());
                let mut e = EMAppendEvent::new(stream, name);
                if rng.chance(1, 2) {
                    let u = gen_uuid(rng);
                    e = e.event_id(u);
                    b.clause(0, "EVENT_ID", vec![uuid_val(u)]);
                }
                let v = gen_ev(rng);
                e = e.expected_version(v);
                ev_clause(&mut b, v);
                if rng.chance(1, 3) {
                    let ms = *rng.pick(&[0u64, 1, 1_700_000_000_000]);
                    e = e.timestamp(UNIX_EPOCH + Duration::from_millis(ms));
                    b.clause(3, "TIMESTAMP", vec![num_val(ms)]);
                }
                if rng.chance(1, 2) {
                    let p = nonempty_bytes(rng);
                    e = e.payload(p.clone());
                    if !p.is_empty() {
                        b.clause(4, "PAYLOAD", vec![bytes_val(&p)]);
                    }
                }
                if rng.chance(1, 2) {
                    let p = nonempty_bytes(rng);
                    e = e.metadata(p.clone());
                    if !p.is_empty() {
                        b.clause(5, "METADATA", vec![bytes_val(&p)]);
                    }
                }
                events.push(e);
            }
            b.end_groups();
            let c = <C as CmdExt>::emappend(pk, &events);
            ClientCase { api: "emappend", form: "events".into(), cmd: "EMAPPEND", emitted: emitted_of(&c), doc: b.toks, expressible: true }
        }
        6 => {
            let u = gen_uuid(rng);
            let mut b = Builder::new("EGET");
            b.uuid_pos("event_id", u);
            ClientCase { api: "eget", form: "id".into(), cmd: "EGET", emitted: emitted_of(&<C as CmdExt>::eget(u)), doc: b.toks, expressible: true }
        }
        7 | 8 => {
            let by_key = api_n == 7;
            let (start, end, count) = (gen_u64(rng), rng.chance(1, 2).then(|| gen_u64(rng)), rng.chance(1, 2).then(|| gen_u64(rng)));
            let mut b = Builder::new("EPSCAN");
            let c = if by_key {
                let k = gen_uuid(rng);
                b.uuid_pos("partition", k);
                <C as CmdExt>::epscan_by_key(k, start, end, count)
            } else {
                let p = gen_pid(rng);
                b.num_pos("partition", NumTy::U16, p);
                <C as CmdExt>::epscan_by_id(p, start, end, count)
            };
            b.pos(Role::PosRange("start"), start.to_string().as_bytes());
            b.pos(Role::PosRange("end"), end.map(|n| n.to_string()).unwrap_or("+".into()).as_bytes());
            b.clause(0, "COUNT", vec![num_val(count.unwrap_or(100))]);
            ClientCase { api: if by_key { "epscan_by_key" } else { "epscan_by_id" }, form: "COUNT".into(), cmd: "EPSCAN", emitted: emitted_of(&c), doc: b.toks, expressible: true }
        }
        9 | 10 => {
            let with_pk = api_n == 10;
            let stream = gen_stream(rng);
            let (start, end, count) = (gen_u64(rng), rng.chance(1, 2).then(|| gen_u64(rng)), rng.chance(1, 2).then(|| gen_u64(rng)));
            let mut b = Builder::new("ESCAN");
            b.pos(Role::Stream, stream.as_bytes());
            b.pos(Role::PosRange("start"), start.to_string().as_bytes());
            b.pos(Role::PosRange("end"), end.map(|n| n.to_string()).unwrap_or("+".into()).as_bytes());
            let c = if with_pk {
                let k = gen_uuid(rng);
                b.clause(0, "PARTITION_KEY", vec![uuid_val(k)]);
                b.clause(1, "COUNT", vec![num_val(count.unwrap_or(100))]);
                <C as CmdExt>::escan_with_partition_key(stream.as_str(), k, start, end, count)
            } else {
                b.clause(1, "COUNT", vec![num_val(count.unwrap_or(100))]);
                <C as CmdExt>::escan(stream.as_str(), start, end, count)
            };
            ClientCase {
                api: if with_pk { "escan_with_partition_key" } else { "escan" },
                form: if with_pk { "COUNT>PARTITION_KEY".into() } else { "COUNT".into() },
                cmd: "ESCAN",
                emitted: emitted_of(&c),
                doc: b.toks,
                expressible: true,
            }
        }
        11 => {
            let mut b = Builder::new("EPSEQ");
            if rng.chance(1, 2) {
                let k = gen_uuid(rng);
                b.uuid_pos("partition", k);
                ClientCase { api: "epseq_by_key", form: "key".into(), cmd: "EPSEQ", emitted: emitted_of(&<C as CmdExt>::epseq_by_key(k)), doc: b.toks, expressible: true }
            } else {
                let p = gen_pid(rng);
                b.num_pos("partition", NumTy::U16, p);
                ClientCase { api: "epseq_by_id", form: "id".into(), cmd: "EPSEQ", emitted: emitted_of(&<C as CmdExt>::epseq_by_id(p)), doc: b.toks, expressible: true }
            }
        }
        12 => {
            let stream = gen_stream(rng);
            let mut b = Builder::new("ESVER");
            b.pos(Role::Stream, stream.as_bytes());
            if rng.chance(1, 2) {
                let k = gen_uuid(rng);
                b.clause(0, "PARTITION_KEY", vec![uuid_val(k)]);
                ClientCase { api: "esver_with_partition_key", form: "PARTITION_KEY".into(), cmd: "ESVER", emitted: emitted_of(&<C as CmdExt>::esver_with_partition_key(stream.as_str(), k)), doc: b.toks, expressible: true }
            } else {
                ClientCase { api: "esver", form: "plain".into(), cmd: "ESVER", emitted: emitted_of(&<C as CmdExt>::esver(stream.as_str())), doc: b.toks, expressible: true }
            }
        }
        13 | 14 | 15 | 16 => {
            let stream = gen_stream(rng);
            let pk = matches!(api_n, 14 | 16).then(|| gen_uuid(rng));
            let from = matches!(api_n, 15 | 16).then(|| gen_u64(rng));
            let mut b = Builder::new("ESUB");
            b.begin_group();
            b.pos(Role::Stream, stream.as_bytes());
            if let Some(k) = pk {
                b.clause(0, "PARTITION_KEY", vec![uuid_val(k)]);
            }
            b.end_groups();
            if let Some(n) = from {
                b.clause(10, "FROM", vec![num_val(n)]);
            }
            let (api, c) = match (pk, from) {
                (None, None) => ("esub", <C as CmdExt>::esub(stream.as_str())),
                (Some(k), None) => ("esub_with_partition_key", <C as CmdExt>::esub_with_partition_key(stream.as_str(), k)),
                (None, Some(n)) => ("esub_from_version", <C as CmdExt>::esub_from_version(stream.as_str(), n)),
                (Some(k), Some(n)) => ("esub_with_partition_and_version", <C as CmdExt>::esub_with_partition_and_version(stream.as_str(), k, n)),
            };
            ClientCase { api, form: "single-stream".into(), cmd: "ESUB", emitted: emitted_of(&c), doc: b.toks, expressible: true }
        }
        17 | 18 => {
            let from = (api_n == 18).then(|| gen_u64(rng));
            let mut b = Builder::new("EPSUB");
            if rng.chance(1, 2) {
                let k = gen_uuid(rng);
                b.pos(Role::Selector, k.hyphenated().to_string().as_bytes());
                let c = match from {
                    None => <C as CmdExt>::epsub_by_key(k),
                    Some(n) => <C as CmdExt>::epsub_by_key_from_sequence(k, n),
                };
                ClientCase { api: if from.is_some() { "epsub_by_key_from_sequence" } else { "epsub_by_key" }, form: "selector=partition-key".into(), cmd: "EPSUB", emitted: emitted_of(&c), doc: b.toks, expressible: false }
            } else {
                let p = gen_pid(rng);
                b.pos(Role::Selector, p.to_string().as_bytes());
                if let Some(n) = from {
                    b.clause(10, "FROM", vec![num_val(n)]);
                }
                let c = match from {
                    None => <C as CmdExt>::epsub_by_id(p),
                    Some(n) => <C as CmdExt>::epsub_by_id_from_sequence(p, n),
                };
                ClientCase { api: if from.is_some() { "epsub_by_id_from_sequence" } else { "epsub_by_id" }, form: "selector=partition-id".into(), cmd: "EPSUB", emitted: emitted_of(&c), doc: b.toks, expressible: true }
            }
        }
        19 => {
            let mut b = Builder::new("HELLO");
            b.num_pos("version", NumTy::I64, 3);
            ClientCase { api: "hello", form: "version".into(), cmd: "HELLO", emitted: emitted_of(&<C as CmdExt>::hello(3)), doc: b.toks, expressible: true }
        }
        20 => {
            let b = Builder::new("PING");
            ClientCase { api: "ping", form: "plain".into(), cmd: "PING", emitted: emitted_of(&<C as CmdExt>::ping()), doc: b.toks, expressible: true }
        }
        _ => {
            let (id, cur) = (gen_uuid(rng), gen_u64(rng));
            let mut b = Builder::new("EACK");
            b.uuid_pos("subscription_id", id);
            b.num_pos("cursor", NumTy::U64, cur);
            ClientCase { api: "eack", form: "cursor".into(), cmd: "EACK", emitted: emitted_of(&<C as CmdExt>::eack(id, cur)), doc: b.toks, expressible: true }
        }
    }
}

fn client_cmd_case(rep: &mut Report, seed: u64) {
    let mut rng = Rng::new(seed);
    let case = cmd_case(&mut rng);
    check(rep, case, seed, "cmd");
}

// ---------------------------------------------------------------------------
// Loopback fake RESP server (records request arrays, canned replies)
// ---------------------------------------------------------------------------

type Recorded = Arc<Mutex<Vec<Vec<Vec<u8>>>>>;

fn try_parse_request(buf: &[u8]) -> Option<(Vec<Vec<u8>>, usize)> {
    fn line(buf: &[u8], at: usize) -> Option<(&[u8], usize)> {
        let rest = &buf[at..];
        let p = rest.windows(2).position(|w| w == b"\r\n")?;
        Some((&rest[..p], at + p + 2))
    }
    let (l, mut at) = line(buf, 0)?;
    if l.first() != Some(&b'*') {
        return Some((vec![], buf.len())); // not an array: drop
    }
    let n: usize = std::str::from_utf8(&l[1..]).ok()?.parse().ok()?;
    let mut out = Vec::with_capacity(n);
    for _ in 0..n {
        let (l, a) = line(buf, at)?;
        let len: usize = std::str::from_utf8(&l[1..]).ok()?.parse().ok()?;
        if buf.len() < a + len + 2 {
            return None;
        }
        out.push(buf[a..a + len].to_vec());
        at = a + len + 2;
    }
    Some((out, at))
}

async fn fake_server(listener: tokio::net::TcpListener, rec: Recorded) {
    loop {
        let Ok((mut sock, _)) = listener.accept().await else { return };
        let rec = rec.clone();
        tokio::spawn(async move {
            let mut buf: Vec<u8> = vec![];
            let mut tmp = [0u8; 4096];
            loop {
                while let Some((req, used)) = try_parse_request(&buf) {
                    buf.drain(..used);
                    if req.is_empty() {
                        continue;
                    }
                    let name = String::from_utf8_lossy(&req[0]).to_uppercase();
                    let reply: Vec<u8> = match name.as_str() {
                        "HELLO" => b"%3\r\n$6\r\nserver\r\n$5\r\nredis\r\n$7\r\nversion\r\n$5\r\n7.0.0\r\n$5\r\nproto\r\n:3\r\n".to_vec(),
                        "ESUB" | "EPSUB" => format!("+{}\r\n", Uuid::new_v4()).into_bytes(),
                        _ => b"+OK\r\n".to_vec(),
                    };
                    if name != "HELLO" && name != "CLIENT" {
                        rec.lock().unwrap().push(req);
                    }
                    if sock.write_all(&reply).await.is_err() {
                        return;
                    }
                }
                match sock.read(&mut tmp).await {
                    Ok(0) | Err(_) => return,
                    Ok(n) => buf.extend_from_slice(&tmp[..n]),
                }
            }
        });
    }
}

fn window_opt(rng: &mut Rng) -> Option<u32> {
    rng.chance(1, 2).then(|| *rng.pick(&[1u32, 2, 100, 65_535, 65_536, u32::MAX - 1, u32::MAX]))
}

fn gen_seq_map(rng: &mut Rng, n: usize) -> HashMap<u16, u64> {
    let mut m = HashMap::new();
    while m.len() < n {
        m.insert(gen_pid(rng), gen_u64(rng));
    }
    m
}

fn sub_tail(b: &mut Builder, from: Option<u64>, window: Option<u32>) {
    if let Some(n) = from {
        b.clause(10, "FROM", vec![num_val(n)]);
    }
    if let Some(w) = window {
        b.clause(11, "WINDOW", vec![num_val(w as u64)]);
    }
}

fn map_clause(b: &mut Builder, m: &HashMap<u16, u64>, fallback: Option<u64>) {
    let mut keys: Vec<&u16> = m.keys().collect();
    keys.sort();
    let mut vals = vec![word_val("MAP")];
    for k in keys {
        vals.push(pair_val(&k.to_string(), m[k]));
    }
    if let Some(f) = fallback {
        vals.push(word_val("DEFAULT"));
        vals.push(num_val(f));
    }
    b.clause(10, "FROM", vals);
}

async fn sub_case(rep: &mut Report, seed: u64, mgr: &mut SubscriptionManager, rec: &Recorded) {
    let mut rng = Rng::new(seed);
    rec.lock().unwrap().clear();
    let window = window_opt(&mut rng);
    let (api, form, cmd, doc, expressible, res): (&'static str, String, &'static str, Vec<Tok>, bool, Result<(), String>);
    match rng.below(12) {
        0 | 1 | 2 => {
            let stream = gen_stream(&mut rng);
            let pk = rng.chance(1, 2).then(|| gen_uuid(&mut rng));
            let from = rng.chance(1, 2).then(|| gen_u64(&mut rng));
            let mut b = Builder::new("ESUB");
            b.begin_group();
            b.pos(Role::Stream, stream.as_bytes());
            if let Some(k) = pk {
                b.clause(0, "PARTITION_KEY", vec![uuid_val(k)]);
            }
            b.end_groups();
            sub_tail(&mut b, from, window);
            let s = stream.as_str();
            let (a, r) = match (pk, from, window) {
                (None, None, None) => ("subscribe_to_stream", mgr.subscribe_to_stream(s).await.map(|_| ())),
                (None, None, Some(w)) => ("subscribe_to_stream_with_window", mgr.subscribe_to_stream_with_window(s, w).await.map(|_| ())),
                (None, Some(n), None) => ("subscribe_to_stream_from_version", mgr.subscribe_to_stream_from_version(s, n).await.map(|_| ())),
                (None, Some(n), Some(w)) => ("subscribe_to_stream_from_version_with_window", mgr.subscribe_to_stream_from_version_with_window(s, n, w).await.map(|_| ())),
                (Some(k), None, None) => ("subscribe_to_stream_with_partition_key", mgr.subscribe_to_stream_with_partition_key(s, k).await.map(|_| ())),
                (Some(k), None, Some(w)) => ("subscribe_to_stream_with_partition_key_and_window", mgr.subscribe_to_stream_with_partition_key_and_window(s, k, w).await.map(|_| ())),
                (Some(k), Some(n), None) => ("subscribe_to_stream_with_partition_and_version", mgr.subscribe_to_stream_with_partition_and_version(s, k, n).await.map(|_| ())),
                (Some(k), Some(n), Some(w)) => ("subscribe_to_stream_with_partition_and_version_and_window", mgr.subscribe_to_stream_with_partition_and_version_and_window(s, k, n, w).await.map(|_| ())),
            };
            (api, form, cmd, doc, expressible, res) = (a, "single-stream".into(), "ESUB", b.toks, true, r.map_err(|e| e.to_string()));
        }
        3 => {
            let stream = gen_stream(&mut rng);
            let mut b = Builder::new("ESUB");
            b.begin_group();
            b.pos(Role::Stream, stream.as_bytes());
            b.end_groups();
            b.clause(10, "FROM", vec![word_val("LATEST")]);
            let r = mgr.subscribe_to_stream_from_latest(stream.as_str()).await.map(|_| ());
            (api, form, cmd, doc, expressible, res) = ("subscribe_to_stream_from_latest", "single-stream".into(), "ESUB", b.toks, true, r.map_err(|e| e.to_string()));
        }
        4 | 5 => {
            let from = rng.chance(1, 2).then(|| gen_u64(&mut rng));
            let mut b = Builder::new("EPSUB");
            if rng.chance(1, 2) {
                let p = gen_pid(&mut rng);
                b.pos(Role::Selector, p.to_string().as_bytes());
                sub_tail(&mut b, from, window);
                let (a, r) = match (from, window) {
                    (None, None) => ("subscribe_to_partition", mgr.subscribe_to_partition(p).await.map(|_| ())),
                    (None, Some(w)) => ("subscribe_to_partition_with_window", mgr.subscribe_to_partition_with_window(p, w).await.map(|_| ())),
                    (Some(n), None) => ("subscribe_to_partition_from_sequence", mgr.subscribe_to_partition_from_sequence(p, n).await.map(|_| ())),
                    (Some(n), Some(w)) => ("subscribe_to_partition_from_sequence_with_window", mgr.subscribe_to_partition_from_sequence_with_window(p, n, w).await.map(|_| ())),
                };
                (api, form, cmd, doc, expressible, res) = (a, "selector=partition-id".into(), "EPSUB", b.toks, true, r.map_err(|e| e.to_string()));
            } else {
                let k = gen_uuid(&mut rng);
                b.pos(Role::Selector, k.hyphenated().to_string().as_bytes());
                sub_tail(&mut b, from, window);
                let (a, r) = match (from, window) {
                    (None, None) => ("subscribe_to_partition_key", mgr.subscribe_to_partition_key(k).await.map(|_| ())),
                    (None, Some(w)) => ("subscribe_to_partition_key_with_window", mgr.subscribe_to_partition_key_with_window(k, w).await.map(|_| ())),
                    (Some(n), None) => ("subscribe_to_partition_key_from_sequence", mgr.subscribe_to_partition_key_from_sequence(k, n).await.map(|_| ())),
                    (Some(n), Some(w)) => ("subscribe_to_partition_key_from_sequence_with_window", mgr.subscribe_to_partition_key_from_sequence_with_window(k, n, w).await.map(|_| ())),
                };
                (api, form, cmd, doc, expressible, res) = (a, "selector=partition-key".into(), "EPSUB", b.toks, false, r.map_err(|e| e.to_string()));
            }
        }
        6 => {
            // raw selector strings the method documents: "*", "0-127", "0,1,5", "42"
            let from = gen_u64(&mut rng);
            let (spec, f, ok) = match rng.below(4) {
                0 => ("*".to_string(), "selector=all", true),
                1 => {
                    let a = gen_pid(&mut rng);
                    let bb = gen_pid(&mut rng);
                    (format!("{}-{}", a.min(bb), a.max(bb)), "selector=range", false)
                }
                2 => {
                    let m = gen_seq_map(&mut rng, 3);
                    let mut k: Vec<String> = m.keys().map(|p| p.to_string()).collect();
                    k.sort();
                    (k.join(","), "selector=list", true)
                }
                _ => (gen_pid(&mut rng).to_string(), "selector=partition-id", true),
            };
            let mut b = Builder::new("EPSUB");
            b.pos(Role::Selector, spec.as_bytes());
            sub_tail(&mut b, Some(from), window);
            let r = mgr.subscribe_to_partitions(&spec, from, window).await.map(|_| ());
            (api, form, cmd, doc, expressible, res) = ("subscribe_to_partitions", f.into(), "EPSUB", b.toks, ok, r.map_err(|e| e.to_string()));
        }
        7 => {
            let n = rng.range(1, 4) as usize;
            let m = gen_seq_map(&mut rng, n);
            let mut k: Vec<String> = m.keys().map(|p| p.to_string()).collect();
            k.sort();
            let mut b = Builder::new("EPSUB");
            b.pos(Role::Selector, k.join(",").as_bytes());
            map_clause(&mut b, &m, None);
            sub_tail(&mut b, None, window);
            let r = mgr.subscribe_to_partitions_with_sequences(m, window).await.map(|_| ());
            (api, form, cmd, doc, expressible, res) = ("subscribe_to_partitions_with_sequences", "FROM-MAP".into(), "EPSUB", b.toks, true, r.map_err(|e| e.to_string()));
        }
        8 => {
            let from = gen_u64(&mut rng);
            let mut b = Builder::new("EPSUB");
            if rng.chance(1, 2) {
                b.pos(Role::Selector, b"*");
                sub_tail(&mut b, Some(from), window);
                let r = mgr.subscribe_to_all_partitions(from, window).await.map(|_| ());
                (api, form, cmd, doc, expressible, res) = ("subscribe_to_all_partitions", "selector=all".into(), "EPSUB", b.toks, true, r.map_err(|e| e.to_string()));
            } else {
                let (a, z) = (gen_pid(&mut rng), gen_pid(&mut rng));
                let (a, z) = (a.min(z), a.max(z));
                b.pos(Role::Selector, format!("{a}-{z}").as_bytes());
                sub_tail(&mut b, Some(from), window);
                let r = mgr.subscribe_to_partition_range(a, z, from, window).await.map(|_| ());
                (api, form, cmd, doc, expressible, res) = ("subscribe_to_partition_range", "selector=range".into(), "EPSUB", b.toks, false, r.map_err(|e| e.to_string()));
            }
        }
        9 => {
            let mut b = Builder::new("EPSUB");
            b.pos(Role::Selector, b"*");
            b.clause(10, "FROM", vec![word_val("LATEST")]);
            let r = mgr.subscribe_to_all_partitions_from_latest().await.map(|_| ());
            (api, form, cmd, doc, expressible, res) = ("subscribe_to_all_partitions_from_latest", "selector=all".into(), "EPSUB", b.toks, true, r.map_err(|e| e.to_string()));
        }
        10 => {
            let n = rng.below(4) as usize;
            let m = gen_seq_map(&mut rng, n);
            let use_fallback_api = rng.chance(1, 3);
            let fallback = if use_fallback_api || rng.chance(1, 2) { Some(gen_u64(&mut rng)) } else { None };
            let mut b = Builder::new("EPSUB");
            b.pos(Role::Selector, b"*");
            if m.is_empty() {
                match fallback {
                    None => b.clause(10, "FROM", vec![word_val("LATEST")]),
                    Some(f) => b.clause(10, "FROM", vec![num_val(f)]),
                }
            } else {
                map_clause(&mut b, &m, fallback);
            }
            sub_tail(&mut b, None, window);
            let (a, r) = if use_fallback_api {
                ("subscribe_to_all_partitions_with_fallback", mgr.subscribe_to_all_partitions_with_fallback(m, fallback.unwrap(), window).await.map(|_| ()))
            } else {
                ("subscribe_to_all_partitions_flexible", mgr.subscribe_to_all_partitions_flexible(m, fallback, window).await.map(|_| ()))
            };
            (api, form, cmd, doc, expressible, res) = (a, "selector=all".into(), "EPSUB", b.toks, true, r.map_err(|e| e.to_string()));
        }
        _ => {
            let (id, cur) = (gen_uuid(&mut rng), gen_u64(&mut rng));
            let mut b = Builder::new("EACK");
            b.uuid_pos("subscription_id", id);
            b.num_pos("cursor", NumTy::U64, cur);
            let r = mgr.acknowledge_up_to_cursor(id, cur).await;
            (api, form, cmd, doc, expressible, res) = ("SubscriptionManager::acknowledge_up_to_cursor", "cursor".into(), "EACK", b.toks, true, r.map_err(|e| e.to_string()));
        }
    }
    if let Err(e) = res {
        rep.inconclusive(format!("client call {api} failed against the loopback recorder: {e}"));
        return;
    }
    let recorded = rec.lock().unwrap().clone();
    let Some(emitted) = recorded.into_iter().find(|r| r.first().map(|c| c.eq_ignore_ascii_case(cmd.as_bytes())).unwrap_or(false)) else {
        rep.inconclusive(format!("client call {api}: no {cmd} request was recorded"));
        return;
    };
    check(rep, ClientCase { api, form, cmd, emitted, doc, expressible }, seed, "subscription-manager");
}

async fn with_manager(rep: &mut Report, seeds: Vec<u64>, args: Option<&Args>) {
    let listener = match tokio::net::TcpListener::bind("127.0.0.1:0").await {
        Ok(l) => l,
        Err(e) => return rep.inconclusive(format!("loopback recorder: bind failed: {e}")),
    };
    let port = listener.local_addr().unwrap().port();
    let rec: Recorded = Arc::new(Mutex::new(vec![]));
    let srv = tokio::spawn(fake_server(listener, rec.clone()));
    let client = match redis::Client::open(format!("redis://127.0.0.1:{port}/?protocol=resp3")) {
        Ok(c) => c,
        Err(e) => return rep.inconclusive(format!("loopback recorder: client open failed: {e}")),
    };
    let mut mgr = match tokio::time::timeout(Duration::from_secs(10), SubscriptionManager::new(&client)).await {
        Ok(Ok(m)) => m,
        Ok(Err(e)) => return rep.inconclusive(format!("loopback recorder: SubscriptionManager::new failed: {e}")),
        Err(_) => return rep.inconclusive("loopback recorder: SubscriptionManager::new timed out"),
    };
    for seed in seeds {
        if let Some(a) = args {
            if a.elapsed_s() > a.budget_s * 0.5 {
                break;
            }
        }
        match tokio::time::timeout(Duration::from_secs(10), sub_case(rep, seed, &mut mgr, &rec)).await {
            Ok(()) => {}
            Err(_) => {
                rep.inconclusive(format!("client subscription case {seed} timed out against the loopback recorder"));
                break;
            }
        }
    }
    drop(mgr);
    srv.abort();
}

fn runtime() -> tokio::runtime::Runtime {
    tokio::runtime::Builder::new_multi_thread().worker_threads(2).enable_all().build().expect("tokio runtime")
}

pub fn run(args: &Args, rep: &mut Report) {
    let n_cmd: u64 = if args.tier.is_thorough() { 200_000 } else { 4_000 };
    let n_sub: u64 = if args.tier.is_thorough() { 20_000 } else { 600 };
    for i in 0..n_cmd {
        if args.elapsed_s() > args.budget_s * 0.25 {
            break;
        }
        client_cmd_case(rep, vpc::derive_seed(args.seed, &[args.shard, 1_000_000_007, i]));
    }
    let seeds: Vec<u64> = (0..n_sub).map(|i| vpc::derive_seed(args.seed, &[args.shard, 2_000_000_011, i])).collect();
    let rt = runtime();
    rt.block_on(with_manager(rep, seeds, Some(args)));
    rt.shutdown_timeout(Duration::from_secs(2));
}

pub fn replay(rep: &mut Report, w: &Value) {
    let seed = w["case_seed"].as_u64().unwrap_or(0);
    match w["mode"].as_str().unwrap_or("") {
        "cmd" => client_cmd_case(rep, seed),
        _ => {
            let rt = runtime();
            rt.block_on(with_manager(rep, vec![seed], None));
            rt.shutdown_timeout(Duration::from_secs(2));
        }
    }
}
