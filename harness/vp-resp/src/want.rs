//! The request a role-annotated token list denotes under the documented grammar,
//! as a flat field map (the same normal form `parse.rs` produces from the server's
//! parsed request structs).

use std::collections::{BTreeMap, HashMap, HashSet};

use sierradb::StreamId;
use sierradb::id::NAMESPACE_PARTITION_KEY;
use sierradb_cluster::subscription::{FromSequences, FromVersions, SubscriptionMatcher};
use uuid::Uuid;

use crate::gram::*;

pub type Fields = BTreeMap<String, String>;

pub fn default_key(stream: &str) -> Uuid {
    Uuid::new_v5(&NAMESPACE_PARTITION_KEY, stream.as_bytes())
}

fn fmt_from_seq(f: &FromSequences) -> String {
    match f {
        FromSequences::Latest => "latest".into(),
        FromSequences::AllPartitions(n) => format!("all({n})"),
        FromSequences::Partitions { from_sequences, fallback } => {
            let mut v: Vec<String> = from_sequences.iter().map(|(p, s)| format!("{p}={s}")).collect();
            v.sort();
            format!("map[{}] default={:?}", v.join(" "), fallback)
        }
    }
}

pub fn matcher_fields(m: &SubscriptionMatcher, window: Option<u64>) -> Fields {
    let mut f = Fields::new();
    match m {
        SubscriptionMatcher::AllPartitions { from_sequences } => {
            f.insert("matcher".into(), "all-partitions".into());
            f.insert("from".into(), fmt_from_seq(from_sequences));
        }
        SubscriptionMatcher::Partition { partition_id, from_sequence } => {
            f.insert("matcher".into(), "partition".into());
            f.insert("partitions".into(), partition_id.to_string());
            f.insert("from".into(), from_sequence.map(|n| format!("all({n})")).unwrap_or("latest".into()));
        }
        SubscriptionMatcher::Partitions { partition_ids, from_sequences } => {
            f.insert("matcher".into(), "partitions".into());
            let mut v: Vec<u16> = partition_ids.iter().copied().collect();
            v.sort();
            f.insert("partitions".into(), v.iter().map(|p| p.to_string()).collect::<Vec<_>>().join(","));
            f.insert("from".into(), fmt_from_seq(from_sequences));
        }
        SubscriptionMatcher::Stream { partition_key, stream_id, from_version } => {
            f.insert("matcher".into(), "stream".into());
            f.insert("streams".into(), format!("{partition_key}/{stream_id}"));
            f.insert("from".into(), from_version.map(|n| format!("all({n})")).unwrap_or("latest".into()));
        }
        SubscriptionMatcher::Streams { stream_ids, from_versions } => {
            f.insert("matcher".into(), "streams".into());
            let mut v: Vec<String> = stream_ids.iter().map(|(k, s)| format!("{k}/{s}")).collect();
            v.sort();
            f.insert("streams".into(), v.join(" | "));
            f.insert(
                "from".into(),
                match from_versions {
                    FromVersions::Latest => "latest".into(),
                    FromVersions::AllStreams(n) => format!("all({n})"),
                    FromVersions::Streams(m) => {
                        let mut v: Vec<String> = m.iter().map(|((k, s), n)| format!("{k}/{s}={n}")).collect();
                        v.sort();
                        format!("map[{}]", v.join(" "))
                    }
                },
            );
        }
    }
    f.insert("window".into(), window.map(|n| n.to_string()).unwrap_or("none".into()));
    f
}

fn clause_blocks(toks: &[Tok]) -> Vec<Vec<&Tok>> {
    let mut blocks: Vec<Vec<&Tok>> = vec![];
    for t in toks.iter().filter(|t| t.clause != 0) {
        match blocks.last_mut() {
            Some(b) if b[0].clause == t.clause => b.push(t),
            _ => blocks.push(vec![t]),
        }
    }
    blocks
}

fn expected_version_text(t: &Tok) -> String {
    match t.role {
        Role::Word => t.canon_str().to_lowercase(),
        _ => format!("exact({})", t.canon_str()),
    }
}

fn range_text(t: &Tok) -> String {
    match t.canon.as_slice() {
        b"-" => "start".into(),
        b"+" => "end".into(),
        n => format!("value({})", String::from_utf8_lossy(n)),
    }
}

fn append_fields(f: &mut Fields, prefix: &str, toks: &[&Tok], with_pk: bool) {
    let mut d: BTreeMap<&str, String> = BTreeMap::new();
    d.insert("event_id", "none".into());
    if with_pk {
        d.insert("partition_key", "none".into());
    }
    d.insert("expected_version", "any".into());
    d.insert("timestamp", "none".into());
    d.insert("payload", String::new());
    d.insert("metadata", String::new());
    let owned: Vec<Tok> = toks.iter().map(|t| (*t).clone()).collect();
    for t in toks.iter().filter(|t| t.clause == 0) {
        match t.role {
            Role::Stream => {
                d.insert("stream_id", t.canon_str());
            }
            Role::Name => {
                d.insert("event_name", t.canon_str());
            }
            _ => {}
        }
    }
    for b in clause_blocks(&owned) {
        let v = b.get(1);
        match (b[0].kw, v) {
            ("EVENT_ID", Some(v)) => d.insert("event_id", v.canon_str()),
            ("PARTITION_KEY", Some(v)) => d.insert("partition_key", v.canon_str()),
            ("EXPECTED_VERSION", Some(v)) => d.insert("expected_version", expected_version_text(v)),
            ("TIMESTAMP", Some(v)) => d.insert("timestamp", v.canon_str()),
            ("PAYLOAD", Some(v)) => d.insert("payload", vpc::hex(&v.canon)),
            ("METADATA", Some(v)) => d.insert("metadata", vpc::hex(&v.canon)),
            _ => None,
        };
    }
    for (k, v) in d {
        f.insert(format!("{prefix}{k}"), v);
    }
}

fn partition_text(t: &Tok) -> String {
    match t.role {
        Role::PosUuid(_) => format!("key({})", t.canon_str()),
        _ => format!("id({})", t.canon_str()),
    }
}

/// Intended request of a token list that is inside the documented grammar.
pub fn want_from_toks(cmd: &str, toks: &[Tok]) -> Fields {
    let mut f = Fields::new();
    f.insert("command".into(), cmd.into());
    let pos: Vec<&Tok> = toks.iter().filter(|t| t.clause == 0 && t.role != Role::Cmd).collect();
    let blocks = clause_blocks(toks);
    let clause_val = |kw: &str| blocks.iter().find(|b| b[0].kw == kw && b[0].group == 0).and_then(|b| b.get(1).copied());
    match cmd {
        "EAPPEND" => {
            let all: Vec<&Tok> = toks.iter().collect();
            append_fields(&mut f, "", &all, true);
        }
        "EMAPPEND" => {
            f.insert("partition_key".into(), pos[0].canon_str());
            let groups = toks.iter().map(|t| t.group).max().unwrap_or(0);
            f.insert("events.len".into(), groups.to_string());
            for g in 1..=groups {
                let ev: Vec<&Tok> = toks.iter().filter(|t| t.group == g).collect();
                append_fields(&mut f, &format!("events[{}].", g - 1), &ev, false);
            }
        }
        "EGET" => {
            f.insert("event_id".into(), pos[0].canon_str());
        }
        "ESCAN" => {
            f.insert("stream_id".into(), pos[0].canon_str());
            f.insert("start".into(), range_text(pos[1]));
            f.insert("end".into(), range_text(pos[2]));
            f.insert("partition_key".into(), clause_val("PARTITION_KEY").map(|t| t.canon_str()).unwrap_or("none".into()));
            f.insert("count".into(), clause_val("COUNT").map(|t| t.canon_str()).unwrap_or("none".into()));
        }
        "EPSCAN" => {
            f.insert("partition".into(), partition_text(pos[0]));
            f.insert("start".into(), range_text(pos[1]));
            f.insert("end".into(), range_text(pos[2]));
            f.insert("count".into(), clause_val("COUNT").map(|t| t.canon_str()).unwrap_or("none".into()));
        }
        "ESVER" => {
            f.insert("stream_id".into(), pos[0].canon_str());
            f.insert("partition_key".into(), clause_val("PARTITION_KEY").map(|t| t.canon_str()).unwrap_or("none".into()));
        }
        "EPSEQ" => {
            f.insert("partition".into(), partition_text(pos[0]));
        }
        "EACK" => {
            f.insert("subscription_id".into(), pos[0].canon_str());
            f.insert("cursor".into(), pos[1].canon_str());
        }
        "HELLO" => {
            f.insert("version".into(), pos[0].canon_str());
        }
        "PING" => {}
        "ESUB" => {
            // streams with their partition keys
            let mut streams: Vec<(Uuid, StreamId)> = vec![];
            let mut key_of: HashMap<String, Uuid> = HashMap::new();
            for t in pos.iter().filter(|t| t.role == Role::Stream) {
                let name = t.canon_str();
                let pk = blocks
                    .iter()
                    .find(|b| b[0].group == t.group && b[0].kw == "PARTITION_KEY")
                    .and_then(|b| b.get(1))
                    .map(|v| Uuid::parse_str(&v.canon_str()).unwrap())
                    .unwrap_or_else(|| default_key(&name));
                key_of.insert(name.clone(), pk);
                streams.push((pk, StreamId::new(name).unwrap()));
            }
            let from = blocks.iter().find(|b| b[0].kw == "FROM");
            let window = clause_val("WINDOW").map(|t| t.canon_str().parse::<u64>().unwrap());
            let m = if streams.len() == 1 {
                let (partition_key, stream_id) = streams[0].clone();
                let from_version = match from {
                    None => None,
                    Some(b) => match b[1].role {
                        Role::Num(_) => Some(b[1].canon_str().parse().unwrap()),
                        Role::Word if b[1].canon == b"MAP" => b.iter().filter(|t| t.role == Role::Pair).find_map(|t| {
                            let s = t.canon_str();
                            let (k, v) = s.rsplit_once('=').unwrap();
                            (k == &*stream_id).then(|| v.parse().unwrap())
                        }),
                        _ => None,
                    },
                };
                SubscriptionMatcher::Stream { partition_key, stream_id, from_version }
            } else {
                let from_versions = match from {
                    None => FromVersions::Latest,
                    Some(b) => match b[1].role {
                        Role::Num(_) => FromVersions::AllStreams(b[1].canon_str().parse().unwrap()),
                        Role::Word if b[1].canon == b"MAP" => FromVersions::Streams(
                            b.iter()
                                .filter(|t| t.role == Role::Pair)
                                .map(|t| {
                                    let s = t.canon_str();
                                    let (k, v) = s.rsplit_once('=').unwrap();
                                    ((key_of[k], StreamId::new(k.to_string()).unwrap()), v.parse::<u64>().unwrap())
                                })
                                .collect(),
                        ),
                        _ => FromVersions::Latest,
                    },
                };
                SubscriptionMatcher::Streams { stream_ids: streams.into_iter().collect::<HashSet<_>>(), from_versions }
            };
            f.extend(matcher_fields(&m, window));
        }
        "EPSUB" => {
            let sel = pos[0].canon_str();
            let from = blocks.iter().find(|b| b[0].kw == "FROM");
            let window = clause_val("WINDOW").map(|t| t.canon_str().parse::<u64>().unwrap());
            let from_sequences = match from {
                None => None,
                Some(b) => Some(match b[1].role {
                    Role::Num(_) => FromSequences::AllPartitions(b[1].canon_str().parse().unwrap()),
                    Role::Word if b[1].canon == b"MAP" => {
                        let from_sequences = b
                            .iter()
                            .filter(|t| t.role == Role::Pair)
                            .map(|t| {
                                let s = t.canon_str();
                                let (k, v) = s.split_once('=').unwrap();
                                (k.parse::<u16>().unwrap(), v.parse::<u64>().unwrap())
                            })
                            .collect();
                        let fallback = b.iter().position(|t| t.canon == b"DEFAULT").map(|i| b[i + 1].canon_str().parse().unwrap());
                        FromSequences::Partitions { from_sequences, fallback }
                    }
                    _ => FromSequences::Latest,
                }),
            };
            let m = if sel == "*" {
                SubscriptionMatcher::AllPartitions { from_sequences: from_sequences.unwrap_or(FromSequences::Latest) }
            } else if !sel.contains(',') {
                let partition_id: u16 = sel.parse().unwrap();
                let from_sequence = match from_sequences {
                    None | Some(FromSequences::Latest) => None,
                    Some(FromSequences::AllPartitions(n)) => Some(n),
                    Some(FromSequences::Partitions { from_sequences, fallback }) => from_sequences.get(&partition_id).copied().or(fallback),
                };
                SubscriptionMatcher::Partition { partition_id, from_sequence }
            } else {
                SubscriptionMatcher::Partitions {
                    partition_ids: sel.split(',').map(|p| p.parse::<u16>().unwrap()).collect(),
                    from_sequences: from_sequences.unwrap_or(FromSequences::Latest),
                }
            };
            f.extend(matcher_fields(&m, window));
        }
        other => panic!("unknown command {other}"),
    }
    f
}

/// Field name without list index (stable across cases).
pub fn field_class(name: &str) -> String {
    let mut out = String::new();
    let mut skip = false;
    for c in name.chars() {
        match c {
            '[' => skip = true,
            ']' => skip = false,
            c if !skip => out.push(c),
            _ => {}
        }
    }
    out
}
