//! vp-resp: the RESP surface (C21 parsers, C22 single-node API against the model).

mod c21;
mod c22;
mod client;
mod cases;
mod gram;
mod parse;
mod resp;
mod server;
mod sub;
mod world;
mod want;

use vpc::{Args, Report};

fn main() {
    let args = Args::parse();
    let mut rep = Report::new(&args.prop);
    match args.prop.as_str() {
        "C21" => c21::run(&args, &mut rep),
        "C22" => c22::run(&args, &mut rep),
        p => rep.inconclusive(format!("vp-resp does not serve {p}")),
    }
    rep.write(&args);
    std::process::exit(0);
}
