//! Minimal RESP3 codec over a blocking TcpStream: commands go out as arrays of
//! bulk strings; replies of every RESP3 type are decoded. Push frames that
//! arrive while waiting for a reply are queued.

use std::collections::VecDeque;
use std::io::{Read, Write};
use std::net::TcpStream;
use std::time::{Duration, Instant};

#[derive(Clone, Debug, PartialEq)]
pub enum V {
    Simple(String),
    Err(String),
    Int(i64),
    Bulk(Vec<u8>),
    Array(Vec<V>),
    Map(Vec<(V, V)>),
    Set(Vec<V>),
    Null,
    Double(f64),
    Bool(bool),
    Push(Vec<V>),
    BigNum(String),
}

impl V {
    pub fn as_text(&self) -> Option<String> {
        match self {
            V::Simple(s) => Some(s.clone()),
            V::Bulk(b) => Some(String::from_utf8_lossy(b).into_owned()),
            _ => None,
        }
    }
    pub fn as_bytes(&self) -> Option<Vec<u8>> {
        match self {
            V::Simple(s) => Some(s.as_bytes().to_vec()),
            V::Bulk(b) => Some(b.clone()),
            _ => None,
        }
    }
    pub fn as_int(&self) -> Option<i64> {
        match self {
            V::Int(n) => Some(*n),
            _ => None,
        }
    }
    pub fn get(&self, key: &str) -> Option<&V> {
        match self {
            V::Map(m) => m.iter().find(|(k, _)| k.as_text().as_deref() == Some(key)).map(|(_, v)| v),
            _ => None,
        }
    }
    pub fn is_err(&self) -> bool {
        matches!(self, V::Err(_))
    }
    pub fn brief(&self) -> String {
        let s = format!("{self:?}");
        if s.chars().count() > 300 { format!("{}...", s.chars().take(300).collect::<String>()) } else { s }
    }
}

#[derive(Clone, Debug, PartialEq)]
pub enum RespErr {
    Closed(String),
    Timeout,
    Protocol(String),
}

pub struct Conn {
    pub stream: TcpStream,
    buf: Vec<u8>,
    pub pushes: VecDeque<V>,
}

enum Dec {
    Need,
    Bad(String),
    Ok(V, usize),
}

fn line(buf: &[u8], at: usize) -> Option<(&[u8], usize)> {
    let rest = buf.get(at..)?;
    let p = rest.windows(2).position(|w| w == b"\r\n")?;
    Some((&rest[..p], at + p + 2))
}

fn decode(buf: &[u8], at: usize) -> Dec {
    let Some(&t) = buf.get(at) else { return Dec::Need };
    let Some((l, next)) = line(buf, at + 1) else { return Dec::Need };
    let text = String::from_utf8_lossy(l).into_owned();
    let num = || text.parse::<i64>().map_err(|_| format!("bad length/number {text:?} after {:?}", t as char));
    match t {
        b'+' => Dec::Ok(V::Simple(text), next),
        b'-' => Dec::Ok(V::Err(text), next),
        b':' => match num() {
            Ok(n) => Dec::Ok(V::Int(n), next),
            Err(e) => Dec::Bad(e),
        },
        b'_' => Dec::Ok(V::Null, next),
        b'#' => Dec::Ok(V::Bool(text == "t"), next),
        b',' => match text.parse::<f64>() {
            Ok(f) => Dec::Ok(V::Double(f), next),
            Err(_) => Dec::Bad(format!("bad double {text:?}")),
        },
        b'(' => Dec::Ok(V::BigNum(text), next),
        b'$' | b'!' | b'=' => match num() {
            Ok(-1) => Dec::Ok(V::Null, next),
            Ok(n) if n >= 0 => {
                let n = n as usize;
                if buf.len() < next + n + 2 {
                    return Dec::Need;
                }
                let data = buf[next..next + n].to_vec();
                let v = if t == b'!' { V::Err(String::from_utf8_lossy(&data).into_owned()) } else { V::Bulk(data) };
                Dec::Ok(v, next + n + 2)
            }
            Ok(n) => Dec::Bad(format!("negative length {n}")),
            Err(e) => Dec::Bad(e),
        },
        b'*' | b'~' | b'>' | b'%' => match num() {
            Ok(-1) => Dec::Ok(V::Null, next),
            Ok(n) if n >= 0 => {
                let count = if t == b'%' { 2 * n as usize } else { n as usize };
                let mut items = Vec::with_capacity(count.min(4096));
                let mut at = next;
                for _ in 0..count {
                    match decode(buf, at) {
                        Dec::Ok(v, a) => {
                            items.push(v);
                            at = a;
                        }
                        other => return other,
                    }
                }
                let v = match t {
                    b'*' => V::Array(items),
                    b'~' => V::Set(items),
                    b'>' => V::Push(items),
                    _ => {
                        let mut m = Vec::with_capacity(items.len() / 2);
                        let mut it = items.into_iter();
                        while let (Some(k), Some(v)) = (it.next(), it.next()) {
                            m.push((k, v));
                        }
                        V::Map(m)
                    }
                };
                Dec::Ok(v, at)
            }
            Ok(n) => Dec::Bad(format!("negative count {n}")),
            Err(e) => Dec::Bad(e),
        },
        other => Dec::Bad(format!("unknown RESP type byte {:?}", other as char)),
    }
}

pub fn encode_command(args: &[Vec<u8>]) -> Vec<u8> {
    let mut out = format!("*{}\r\n", args.len()).into_bytes();
    for a in args {
        out.extend_from_slice(format!("${}\r\n", a.len()).as_bytes());
        out.extend_from_slice(a);
        out.extend_from_slice(b"\r\n");
    }
    out
}

impl Conn {
    pub fn connect(port: u16) -> std::io::Result<Conn> {
        let stream = TcpStream::connect(("127.0.0.1", port))?;
        stream.set_nodelay(true)?;
        Ok(Conn { stream, buf: Vec::new(), pushes: VecDeque::new() })
    }

    pub fn send(&mut self, args: &[Vec<u8>]) -> Result<(), RespErr> {
        self.stream.write_all(&encode_command(args)).map_err(|e| RespErr::Closed(format!("write: {e}")))
    }

    /// Next frame of any kind (push or reply).
    pub fn read_frame(&mut self, timeout: Duration) -> Result<V, RespErr> {
        let deadline = Instant::now() + timeout;
        loop {
            match decode(&self.buf, 0) {
                Dec::Ok(v, used) => {
                    self.buf.drain(..used);
                    return Ok(v);
                }
                Dec::Bad(e) => return Err(RespErr::Protocol(e)),
                Dec::Need => {}
            }
            let left = deadline.saturating_duration_since(Instant::now());
            if left.is_zero() {
                return Err(RespErr::Timeout);
            }
            let _ = self.stream.set_read_timeout(Some(left.max(Duration::from_millis(1))));
            let mut tmp = [0u8; 16384];
            match self.stream.read(&mut tmp) {
                Ok(0) => return Err(RespErr::Closed("end of stream".into())),
                Ok(n) => self.buf.extend_from_slice(&tmp[..n]),
                Err(e) if matches!(e.kind(), std::io::ErrorKind::WouldBlock | std::io::ErrorKind::TimedOut) => return Err(RespErr::Timeout),
                Err(e) if e.kind() == std::io::ErrorKind::Interrupted => {}
                Err(e) => return Err(RespErr::Closed(format!("read: {e}"))),
            }
        }
    }

    /// Next non-push frame; pushes seen meanwhile are queued.
    pub fn read_reply(&mut self, timeout: Duration) -> Result<V, RespErr> {
        let deadline = Instant::now() + timeout;
        loop {
            let left = deadline.saturating_duration_since(Instant::now());
            match self.read_frame(left)? {
                V::Push(p) => self.pushes.push_back(V::Push(p)),
                v => return Ok(v),
            }
        }
    }

    pub fn request(&mut self, args: &[Vec<u8>], timeout: Duration) -> Result<V, RespErr> {
        self.send(args)?;
        self.read_reply(timeout)
    }

    /// Next push frame (queued or from the wire); a non-push frame is a protocol error here.
    pub fn read_push(&mut self, timeout: Duration) -> Result<V, RespErr> {
        if let Some(p) = self.pushes.pop_front() {
            return Ok(p);
        }
        match self.read_frame(timeout)? {
            V::Push(p) => Ok(V::Push(p)),
            other => Err(RespErr::Protocol(format!("expected a push frame, got {}", other.brief()))),
        }
    }
}
