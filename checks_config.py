"""Per-property configuration for ./check: engine, build profile, shards, budgets,
the minimum observations below which a run is inconclusive, and the evidence
'rule' text. Secondary tools (sanitizers, Miri, strace) are in extras.py."""

try:
    from extras import EXTRAS
except Exception:  # extras are optional plumbing
    EXTRAS = {}

A_COMMON = [
    "the harness links the crates under /repo by path and rebuilds them from the working tree (cargo change detection)",
    "hooks compiled in with --cfg sierradb_verif only add observability / pause points",
]

CHECKS = {
    "C13": {
        "engine": "vp-pure", "level": "exploration",
        "rule": "validated AppConfig values (bucket.ids/partition.ids unset) built field by field; exhaustive over nodes<=5(6) x buckets<=8(12) x partitions<=12(24) x rf<=nodes, plus seeded large configurations (nodes up to 300, buckets/partitions up to 65535); for every node the config's assigned buckets/partitions are compared with TopologyManager's, and with the routing table of a node that knows all members. non-trivial = distinct (nodes,buckets,partitions,rf) with rf < nodes (placement is not 'everything everywhere')",
        "assumptions": A_COMMON + ["explicit bucket.ids / partition.ids overrides are the operator's responsibility and are not generated"],
        "quick": {"shards": 8, "budget_s": 40, "min_evals": 200},
        "thorough": {"shards": 16, "budget_s": 300, "min_evals": 5000},
    },
    "C14": {
        "engine": "vp-pure", "level": "exploration",
        "rule": "real TopologyManager<ActorId> instances; static full-membership checks for N in 1..40,255,256,257,300 x rf in {1,2,3,5,12}; random membership-event orders (heartbeat, connect, ownership request/response with shuffled replica lists, disconnect, heartbeat timeout via 1ms timeout + 2ms sleep) delivered independently per node, agreement compared after every event between all pairs that know the same live members. non-trivial = distinct static (N,b,p,rf) cases, and event-order cases with >= 4 event kinds and at least one delivery inversion",
        "assumptions": A_COMMON + ["an ownership response is generated only by a sender that has registered the requester (as the behaviour does)", "node restarts (changing alive_since) are not generated"],
        "quick": {"shards": 16, "budget_s": 30, "min_evals": 300, "min_counters": {"pairs_compared_same_membership": 1000}},
        "thorough": {"shards": 16, "budget_s": 400, "min_evals": 20000, "min_counters": {"pairs_compared_same_membership": 100000}},
    },
    "C23": {
        "engine": "vp-pure", "level": "exploration",
        "rule": "all 65536 partition hashes x 4 (quick) / 64 (thorough) generated ids: embedded hash, validate_event_id, Transaction::new acceptance with a partition key carrying that hash, rejection of a foreign hash; flag functions on zero, all-ones, every single-bit, inverted single-bit and two-bit UUID pattern and random UUIDs against a bit-mask oracle; routing agreement (key->partition, event id->partition, record->partition, partition->bucket, event id->bucket) for all partitions<=64 x buckets<=partitions and sampled pairs up to 65535. non-trivial = distinct hashes, two-bit flag patterns, and routing cases where buckets do not divide partitions",
        "assumptions": A_COMMON,
        "quick": {"shards": 8, "budget_s": 30, "min_evals": 100000},
        "thorough": {"shards": 16, "budget_s": 200, "min_evals": 4000000, "extras": ["miri_pure"]},
    },
    "C24": {
        "engine": "vp-pure", "level": "exploration", "profile": "release",
        "rule": "the shipped distribute_partition is executed (release build with overflow checks on) and judged by an oracle for length = min(rf,n,12), distinctness, range, first = hash mod n, prefix rule rf 0..13, determinism, no panic. quick: every n in 0..65535 x 8 boundary hashes + 4 random x rf in {1,2,3,12,255}; thorough: ALL 2^16 hashes x ALL 2^16 n x rf in {1,2,3,12,255} (exhaustive). non-trivial = (hash,n,rf) with n >= 3 and rf >= 2 (the jump path runs); triples are enumerated without repetition so they are distinct by construction",
        "assumptions": A_COMMON + ["replication factors other than {1,2,3,12,255} are covered only through the prefix rule (rf 0..13 on sampled hashes for every n)"],
        "quick": {"shards": 16, "budget_s": 30, "min_evals": 1000000},
        "thorough": {"shards": 16, "budget_s": 900, "min_evals": 20000000000, "exhaustive": True, "watchdog_s": 3600},
    },
    "C25": {
        "engine": "vp-pure", "level": "exploration",
        "rule": "expected in {Any,Exists,Empty,Exact(v)} x current in {Empty,Current(c)} with v,c over a 20-value u64 boundary grid (0,1,2,2^31..2^63 +-1,MAX-2..MAX) plus 10^5 (quick) / 10^6 (thorough) random pairs biased to near-equal and edge values, judged by an i128 oracle (Empty = -1); Display/FromStr and from_next_version/into_next_version inverses on the same values; store comparison: is_satisfied_by vs acceptance by a real Database for current in {Empty,0..5} x 13 expectations, for stream versions and for partition sequences. non-trivial = boundary pairs whose true distance >= 2^63 or uses Exact(MAX), and distinct store probes (kind, expectation, current)",
        "assumptions": A_COMMON + ["a distance of exactly 2^64 (Exact(MAX) vs Empty, Empty vs Current(MAX)) is not representable in VersionGap; a saturated u64::MAX is accepted there"],
        "quick": {"shards": 4, "budget_s": 40, "min_evals": 100000},
        "thorough": {"shards": 16, "budget_s": 200, "min_evals": 4000000, "extras": ["miri_pure"]},
    },
    "C26": {
        "engine": "vp-pure", "level": "exploration",
        "rule": "1-3 real threads run seeded op lists (should_allow_request, record_success, record_failure, estimated_recovery_time) on the real WriteCircuitBreaker; hook H6 supplies a harness clock (advancing by 0..2x recovery_timeout between scheduling events, including between the clock read and the last_failure_time load) and yield points inside the breaker at which a seeded token scheduler picks the thread that continues; an online monitor samples current_state() at every scheduling event: panic = violation, Closed->Open needs >= threshold failures that can be ordered after the last completed success, <= half_open_max_calls admitted calls per half-open episode; plus a free-running 3-thread stress on the real clock (panic monitor). non-trivial = distinct schedule fingerprints (sequence of (yield point, next thread)) in which two threads were inside the Open branch at once or a failure landed between clock read and load",
        "assumptions": A_COMMON + ["interleavings are explored at the granularity of the hook yield points plus operation boundaries, not every atomic access", "builds carry overflow checks (dev profile), as the panic-freedom clause needs"],
        "quick": {"shards": 16, "budget_s": 20, "min_evals": 5000, "min_counters": {"schedules_two_threads_in_open_branch": 100, "schedules_failure_between_clock_read_and_load": 100, "half_open_episodes": 1000}},
        "thorough": {"shards": 16, "budget_s": 500, "min_evals": 200000, "min_counters": {"schedules_two_threads_in_open_branch": 10000, "half_open_episodes": 100000}, "extras": ["tsan_pure"]},
    },
    "C17": {
        "engine": "vp-seglog", "level": "exploration",
        "rule": "real Writer/Reader/parse_record on real files; a record R is written between two neighbours for header sizes H in {0,1,8,16,32} x data sizes {0,1,2,7,8,...,127,128,129, 2039..2057, 4087..4105, 65527..65545, 200000 (thorough)} plus sizes making H+N a power of two x contents {random,compressible,zero} x compression {off,on}; round trip by random read, sequential read, iteration (from every boundary) and parse_record; then R is damaged in place: EVERY single-bit flip (records <= 1100 B quick / 16 KiB thorough; header + sampled payload bits otherwise), bursts of 2..32 bits with both end bits set at every bit offset (small) or sampled, truncation at every byte (small) or sampled by zeroing the tail and by shortening the file; every read path must refuse R without panicking while the intact neighbour before it still reads; Writer::open on the damaged file must resume at R and a following append must leave the intact record readable. non-trivial = distinct (H, size, content, compression) record cases; growing log: 4-13 records (the case's size, empty, small, sometimes > 64 KiB, sometimes a run that walks a record boundary across the 64 KiB read-ahead window end) are appended and synced one by one while one long-lived reader sharing the flushed offset reads each record sequentially as the tail of the flushed log and a second one iterates the whole flushed log after every sync",
        "assumptions": A_COMMON + ["an accepted damaged record would be reported even if it were a genuine 2^-32 CRC collision (bursts spanning the len|crc|header boundary are not contiguous in CRC order)"],
        "quick": {"shards": 16, "budget_s": 60, "min_evals": 500000, "min_counters": {"records_with_every_bit_flipped": 200, "truncations": 10000}},
        "thorough": {"shards": 16, "budget_s": 900, "min_evals": 20000000, "extras": ["asan_seglog"]},
    },
    "C18": {
        "engine": "vp-seglog", "level": "exploration",
        "rule": "(a) seeded op lists of 300 ops on one segment: append (unique self-describing records, 0 B..72 KiB, compressible or not), flush_writer, sync, set_len at a record boundary, compression toggles, interleaved with reads through 2-3 long-lived readers sharing the writer's FlushedOffset (try_clone): random/sequential reads of flushed, unflushed and truncated records, iteration from record boundaries, replace_header through one reader; oracle = writer-side model (offset, header, data, length, flushed mark): flushed records must read back exactly through every reader, nothing at or beyond the flushed mark may be returned; (b) writer thread + 3 reader threads on an 8 MiB segment: records synced before a read started must read back exactly, a record starting at or above the flushed mark loaded after the read must not be returned. non-trivial = distinct op lists containing a set_len or a sequential read through a reader whose cache was filled before the record was flushed, and threaded runs",
        "assumptions": A_COMMON + ["flushed marks only ever sit at record boundaries (sync and set_len at boundaries), as in sierradb's use"],
        "quick": {"shards": 16, "budget_s": 30, "min_evals": 1000, "min_counters": {"set_len_ops": 1000, "sequential_reads_through_reader_with_older_cache": 5000, "threaded_reads_checked": 100000}},
        "thorough": {"shards": 16, "budget_s": 600, "min_evals": 100000, "extras": ["tsan_seglog"]},
    },
    "C01": {
        "engine": "vp-store", "level": "exploration",
        "rule": "seeded histories of 20-120 operations on a real Database under a random configuration (segment 128 KiB/256 KiB/1 MiB, 1-4 buckets, 1-4 writer threads, compression on/off, sync interval 1-100 ms, max batch 1/50/1000, min sync bytes 1/4096/1 MiB): single- and multi-event appends that are valid, version-conflicting, partition-key conflicting (same bucket), oversized, or carry a timestamp >= 2^63 at the first/middle/last event; reopen (3%). Oracle: reference model. After every acknowledgement, with no delay: event lookup, transaction read, partition scan and stream scans compared field by field; the ack must follow an fsync event (hook in seglog::Writer::sync) covering the transaction's end offset in its segment; whole-model audit after every reopen, at the end, and after a final reopen. non-trivial = distinct histories containing an ack that follows a failed part-way multi-event append on the same bucket, or an ack whose transaction is the first in a new segment",
        "assumptions": A_COMMON + ["fsync is observed through a hook placed right after File::sync_data in seglog (the thorough tier cross-checks the hook against the kernel with strace)", "a stream id is never reused with a partition key that maps to a different bucket"],
        "quick": {"shards": 16, "budget_s": 45, "min_evals": 200, "min_counters": {"acks_joined_with_fsync": 5000, "acks_after_failed_partial_write": 100, "acks_first_in_new_segment": 100}},
        "thorough": {"shards": 48, "parallel": 16, "budget_s": 300, "min_evals": 5000, "extras": ["strace_fsync"]},
    },
    "C02": {
        "engine": "vp-store", "level": "exploration",
        "rule": "seeded histories of 40-120 well-formed appends on a real Database (random configuration as for C01): Any/Exists/Empty/Exact expectations right and wrong by one or two, repeated streams inside one transaction with expectations relative to earlier events of the same transaction, 2 streams x 2 keys per partition over 1-3 partitions per bucket, expected partition sequence Any/Exists/Empty/Exact right and wrong, same-bucket partition-key conflicts, reopen between steps. Oracle: reference model: accept/reject must agree, assigned sequences/versions must agree, latest-version/sequence queries must agree after every accept, and a rejected append must leave every observable (latest queries, partition tail, stream tails) unchanged. non-trivial = distinct histories exercising >= 3 expectation kinds both satisfied and violated and crossing >= 1 rollover or reopen; 1 step in 7 is a pipelined pair issued without waiting in between: a valid append A to an existing stream and, behind it, an append B to the same stream under another partition key of the same partition expecting exactly the version A produces - A must be accepted and B refused whichever the writer handles first (B is validated while A's event may still be unsynced)",
        "assumptions": A_COMMON + ["only accept/reject and assigned numbers are compared, not error text", "transactions fit a segment and carry valid timestamps (everything else belongs to C01/C19)"],
        "quick": {"shards": 16, "budget_s": 40, "min_evals": 200, "min_counters": {"acks": 5000, "appends_rejected_as_expected": 3000}},
        "thorough": {"shards": 48, "parallel": 16, "budget_s": 300, "min_evals": 5000},
    },
    "C03": {
        "engine": "vp-store", "level": "exploration",
        "rule": "a generated history of 50-120 accepted transactions (single/multi-event, interleaved streams inside a transaction, 1-3 partitions per bucket, record sizes straddling the 2 KiB/4 KiB reader buffers and the 64 KiB cache block) is written into three layouts: one large open segment, 128 KiB segments (many sealed + open), and the latter after reopen; every partition and stream is scanned from starts {0, last, last+1, last+1000, u64::MAX, first/middle/last event of a multi-event transaction, random} x {forward, reverse} x consumption {next(), next_batch(1,2,3,7,50,1000)} (two sampled modes per query in quick, all seven in thorough). Oracle: the model's lists; forward = exact flattened equality; reverse = same set of events at or before the start, every group inside one transaction, groups in non-increasing order, content equal. non-trivial = distinct (history, layout, subject, start, direction, mode) whose range spans >= 2 segments or starts inside a multi-event transaction",
        "assumptions": A_COMMON + ["reverse rule taken literally from the statement: a group may repeat events of its own transaction, groups never go back up"],
        "quick": {"shards": 16, "budget_s": 45, "min_evals": 100000, "min_counters": {"layouts_queried": 100}},
        "thorough": {"shards": 48, "parallel": 16, "budget_s": 400, "min_evals": 3000000, "extras": ["asan_store"]},
    },
    "C04": {
        "engine": "vp-store", "level": "fault_enumeration",
        "rule": "three monitors share the shards: (a) histories of 30-90 appends with version conflicts and multi-event transactions that fail part-way (out-of-range timestamp on a later event); after every step partition scans (3 starts), stream scans (2 starts) and transaction reads from a random member are checked for group structure: every returned group holds exactly the events of one committed transaction that the stream filter and the start position allow, ids of failed transactions are a deny-list for scans, event lookup and transaction read; (b) the writer thread is held at hook write.after_event after each event of a multi-event transaction (between events, and between the last event and the commit record) while a reader completes a full round of all read APIs; (c) crash states: every byte cut of an appended tail (c05 generator) must reopen to a model prefix with nothing of a later transaction visible. non-trivial = distinct histories with a failed part-way write, distinct (case, transaction, event) hold points at which a reader round completed, and distinct crash cuts not on a transaction boundary",
        "assumptions": A_COMMON + ["reverse scans are judged by C03's rule (a reverse group is a suffix of its transaction); C04 judges forward scans, lookups and transaction reads", "crash model: process crash, the prefix of bytes that reached write(2) survives"],
        "quick": {"shards": 16, "budget_s": 30, "min_evals": 500, "min_counters": {"reader_rounds_while_writer_held": 1000, "failed_partial_writes": 50, "cuts.inside-event-of-multi-event-txn": 200}},
        "thorough": {"shards": 64, "parallel": 16, "budget_s": 120, "min_evals": 10000},
    },
    "C05": {
        "engine": "vp-store", "level": "fault_enumeration",
        "rule": "a history is run to N (3-16) acknowledged transactions and shut down; a tail of K (1-4) transactions (single, multi-event, multi-stream) is appended; the live segment is read with the real seglog reader for record boundaries; for EVERY byte boundary c of the tail (tails <= 8 KiB: all cuts; longer tails in thorough: all cuts of the first 8 KiB then every record/field boundary +-2) the crash state = final directory with live-segment bytes [c,end) zeroed is reopened with the real code and audited (every partition and stream scanned, every event by id, latest queries) against the model prefixes M_N..M_{N+K}, with nothing of a later transaction visible; then 5-8 more transactions are appended and must be assigned the model's next sequences/versions (no gap, no reuse), followed by a full re-audit. non-trivial = distinct (case, cut) with the cut strictly inside a record or between records of one transaction",
        "assumptions": A_COMMON + ["crash model: process crash, the prefix of bytes that reached write(2) survives (the segment file is fallocated, lost bytes read as zero); torn sectors / lost fsync on power failure are not modelled", "the tail lies in one segment (cases whose tail rolls over are skipped and counted)"],
        "quick": {"shards": 48, "parallel": 16, "budget_s": 25, "min_evals": 3000, "min_counters": {"cuts.inside-event-of-multi-event-txn": 500, "cuts.inside-commit-record": 100}, "opts": {"parts": 4}},
        "thorough": {"shards": 256, "parallel": 16, "budget_s": 40, "min_evals": 50000, "opts": {"parts": 8}},
    },
    "C06": {
        "engine": "vp-store", "level": "fault_enumeration",
        "rule": "histories with 1-3 rollovers on 128 KiB segments are shut down cleanly (background index flush awaited); for every sealed segment and each of index.eidx / partition.pidx / stream.sidx the file is replaced by: empty, write prefixes (every length 1..40 [1..512 thorough], structural boundaries +-1, every 64th [8th] byte, random lengths, len-1), complete; and all three files together empty or cut at 10/50/90 %; each state is reopened with the real code and the whole model is audited (every event by id, every partition and stream scan, latest queries). symptom classes: cannot-serve (open fails / a read fails / acknowledged events not found), open-panic, wrong-data. non-trivial = distinct (file kind, state class) combinations",
        "assumptions": A_COMMON + ["a process crash keeps a prefix of the index file's bytes (the file is written by one write_all call after set_len(0) / at offset 0)", "the real-kill variant (SIGKILL while hook index_flush.before holds the flush) belongs to the thorough tier"],
        "quick": {"shards": 16, "budget_s": 30, "min_evals": 2000, "min_counters": {"states.eidx.truncated": 300, "states.pidx.truncated": 300, "states.sidx.truncated": 300, "states..complete": 16}},
        "thorough": {"shards": 64, "parallel": 16, "budget_s": 60, "min_evals": 15000},
    },
    "C15": {
        "engine": "vp-store", "level": "exploration",
        "rule": "2-5 writer tasks append 150 transactions each (1-3 events, payloads up to 8 KB) to their own streams over 2-4 partitions / 1-2 buckets / 1-2 writer threads with 128 KiB segments (a rollover every few dozen appends); 3-8 reader tasks snapshot the shared registry of acknowledged appends BEFORE each round and then look every snapshot entry up by id, query stream version and partition sequence (never below the acknowledged value, never going backwards per reader) and scan partition and stream from the acknowledged position. In two of three cases hook H3 holds the writer thread at rollover.swapped / rollover.installed_old until every reader has started and completed a full round inside the window; one of three cases runs free. non-trivial = distinct cases (with the number of windows held and of reader rounds completed inside them)",
        "assumptions": A_COMMON + ["'a read that starts after an acknowledgement' is established by snapshotting the registry before the read is invoked (one process, one logical clock)"],
        "quick": {"shards": 16, "budget_s": 30, "min_evals": 50, "min_counters": {"reader_rounds_completed_inside_window": 2000, "rollover_windows_held": 500, "reads_checked": 500000}},
        "thorough": {"shards": 32, "parallel": 16, "budget_s": 300, "min_evals": 1000, "extras": ["tsan_store"]},
    },
    "C16": {
        "engine": "vp-store", "level": "exploration",
        "rule": "8-47 tasks x 3-8 rounds race optimistic appends (read the current version, then append with Exact(v) / Empty, 1/8 deliberately stale; 1/3 two-stream transactions; 1/4 with an exact expected partition sequence) on 1-2 hot streams per partition over 1-2 buckets and 1-2 writer threads; every call is recorded with invoke/return ticks of one logical clock. Oracle: successes sorted by partition sequence are replayed into the model (every expectation must hold there, assigned numbers must match: no two successes claim the same version or sequence); real-time order per partition; a refused single-stream append is a violation if its expected version was certainly current during its whole call interval; final scans equal the replay. non-trivial = distinct races with at least one conflict refusal and >= 4 successes",
        "assumptions": A_COMMON,
        "quick": {"shards": 16, "budget_s": 25, "min_evals": 300, "min_counters": {"successes": 5000, "refusals": 50000}},
        "thorough": {"shards": 32, "parallel": 16, "budget_s": 200, "min_evals": 10000, "extras": ["tsan_store"]},
    },
    "C19": {
        "engine": "vp-store", "level": "exploration",
        "rule": "per case: segment size 128 KiB/256 KiB/1 MiB, compression on (2/3) or off, a probe transaction (1-3 events; payload tiny / 0.2-4 KB / half a segment / about a segment / mixed) with incompressible, highly compressible or mixed content; its stored size is MEASURED by writing the same records through the real BucketSegmentWriter into a scratch segment (with the sequence/version numbers the store will assign); the live segment is filled exactly (end offsets from hook txn_written) so that free space sweeps estimate-48..estimate+48 and stored-48..stored+48 byte by byte plus 14 coarse points; every probe whose stored size fits an empty segment must be accepted within 3 attempts. non-trivial = distinct (case, free space) where the store's estimate and the stored size disagree about fitting (estimate<=free<stored, stored<=free<estimate, estimate exceeds the segment)",
        "assumptions": A_COMMON + ["'never fails forever' is checked as 'accepted within three identical attempts' (after a refusal the store is back in the same state, so further attempts repeat)"],
        "quick": {"shards": 16, "budget_s": 30, "min_evals": 2000, "min_counters": {"probes_at_exact_free_space": 1500}},
        "thorough": {"shards": 32, "parallel": 16, "budget_s": 300, "min_evals": 50000},
    },
    "C20": {
        "engine": "vp-store", "level": "exploration",
        "rule": "sync configuration sweep (sync interval 1/3/10/50/200/1000 ms, idle interval 1/10/50/500 ms, max batch 1/10/50/1000, min sync bytes 1/4096/64 KiB/1 MiB) x 1/2/8/32/64 concurrent clients x 1-4 buckets x 1..buckets writer threads x 128 KiB/1 MiB segments; clients append 1-3 event transactions (payload tiny / 4-13 KB / a fifth of a segment, so rollovers happen) in bursts followed by silence; every call is registered open at invoke and closed at return (success or error). Monitor (every 20 ms, on the hook event log): an open append whose transaction was written, whose end offset was covered by an fsync of its segment (or whose segment was sealed), after which more than 200 flush polls of its own writer thread passed (and still open after a further 200 ms) = violation; written but not covered after 400 flush polls of its writer thread = violation; 60 s wall clock without a logical verdict = inconclusive. non-trivial = distinct (sync interval, idle interval, max batch, min bytes, clients, buckets, writer threads, segment size) combinations",
        "assumptions": A_COMMON + ["'bounded time' is restated as bounded logical progress (events of the writer thread), because no finite run decides an unbounded bound and wall-clock deadlines are not verdicts on a loaded machine", "healthy disk: no I/O errors are injected"],
        "quick": {"shards": 16, "budget_s": 30, "min_evals": 60, "min_counters": {"appends_completed": 8000, "flush_polls_observed": 2000, "cases_without_syncer_thread": 10, "crowd_cases": 4}},
        "thorough": {"shards": 32, "parallel": 16, "budget_s": 300, "min_evals": 10000, "extras": ["tsan_store"]},
    },
    "C07": {
        "engine": "vp-cluster1", "level": "exploration",
        "rule": "per shard one real single-node ClusterActor (kameo's remote layer allows one per process) with replication factor 1/2/3/5 (by shard) on a 4-bucket database with 96 (256 thorough) partitions; every partition gets a history of 3-11 transactions (1-3 events) written directly into the Database with Transaction::with_confirmation_count(c), c below/at/above quorum per transaction (how a replica stores them); the ConfirmationActor derives the watermark from the on-disk counts; then for every partition: ReadEvent for every event, ReadPartition with start in {0,W-1,W,W+1,end} x end in {None,W-1,W,W+1} x count in {1,2,100}, ReadStream (2 starts x 2 ends) and GetStreamVersion per stream, GetPartitionSequence; the watermark is then moved by ConfirmTransaction messages (two rounds, shuffled) and the matrix repeats. Oracle (safety only): nothing with partition sequence >= W_model is revealed, W_model = longest prefix with count >= rf/2+1 by issued confirmations. non-trivial = distinct (shard, partition, watermark, phase) where an unconfirmed event sits exactly at W and confirmed events exist after it",
        "assumptions": A_COMMON + ["completeness of reads below the watermark belongs to C22", "the real watermark never exceeds the model's (C08), so a revealed sequence >= W_model is a violation whatever the actor's current watermark is"],
        "quick": {"shards": 16, "budget_s": 40, "min_evals": 100000, "min_counters": {"confirm_messages": 1500}},
        "thorough": {"shards": 32, "parallel": 16, "budget_s": 200, "min_evals": 1000000},
    },
    "C08": {
        "engine": "vp-cluster1", "level": "fault_enumeration",
        "rule": "(a) 15000 (400000 thorough) seeded delivery sequences per shard on the real PartitionConfirmationState: 2-10 transactions of 1-3 versions, rf in {1,2,3,5}, each transaction reported with its final count plus 0-2 stale lower counts and duplicates, shuffled; after every update: watermark monotone and <= longest prefix of versions reported at least once with a quorum count; at the end equal to it. (b) real Database + real BucketConfirmationManager: counts are written to the event records (set_confirmations) before they are reported; the manager persists twice, is dropped at a random step, and the confirmation directory is rewritten to every crash state of persist_bucket_state: temp file at prefix lengths {0,1,2,len/2,len-1,3 random} / complete, previous removed, current renamed to previous, temp renamed to current, plus all state files missing and current corrupt; new + initialize(database) must not lower any partition's watermark. non-trivial = distinct delivery sequences with >= 1 inversion and >= 1 duplicate, and distinct (case, crash state, prefix length)",
        "assumptions": A_COMMON + ["restart part: on-disk counts only ever increase (the real coordinator never sends a lower count to the same replica after a higher one)"],
        "quick": {"shards": 16, "budget_s": 30, "min_evals": 100000, "min_counters": {"crash_states.temp-prefix": 500, "crash_states.current-renamed-to-previous": 100}},
        "thorough": {"shards": 32, "parallel": 16, "budget_s": 200, "min_evals": 5000000},
    },
    "C12": {
        "engine": "vp-cluster1", "level": "exploration",
        "rule": "per shard one real single-node ClusterActor (rf 3, replication buffer 4/8/16, buffer timeout 200/350/500 ms, catch-up timeout half of it); the harness plays coordinator through ReplicateWrite (the node's own remote ref as coordinator): per schedule a fresh partition and a planned log of 6-35 transactions (1-3 events, fixed ids, Empty/Exact expected sequence) delivered from concurrent tasks with per-delivery delays: local or full shuffles, 1-3 copies, conflicting twins (same sequence, different transaction, 1/5), a slot never delivered (1/3), a slot delivered 150-300 ms late (1/2), stale re-sends. Oracle: the log (read from the Database) holds slot by slot the planned transaction or its twin at the assigned sequences, nothing beyond a never-delivered slot, nothing twice; an Ok reply only for the transaction that is in the log and with the assigned sequences; a slot delivered once after its predecessor's Ok reply must be answered Ok; no ask unanswered after 15 s (30-75 buffer timeouts); then the missing writes are re-sent strictly in order, one at a time (<= 5 attempts, 2 buffer timeouts apart): each must be applied and the final log must be complete and gapless. non-trivial = distinct schedules showing >= 2 of: buffered writes released by a late predecessor, duplicate merged, conflict refused, buffer eviction/full",
        "assumptions": A_COMMON + ["a buffered write whose reply sender is dropped after the buffer timeout counts as answered (the coordinator sees a failure)", "reordering/duplication of individual replication messages is produced here in-process, not between real nodes (C10/C11)"],
        "quick": {"shards": 16, "budget_s": 40, "min_evals": 500, "min_counters": {"schedules.conflict_refused": 300, "schedules.buffer_eviction_or_full": 300, "schedules.late_predecessor_released_buffered_writes": 100, "writes_applied_in_settle_phase": 3000}},
        "thorough": {"shards": 32, "parallel": 16, "budget_s": 300, "min_evals": 5000},
    },
    "C09": {
        "engine": "vp-cluster1", "level": "exploration",
        "rule": "per shard one real single-node ClusterActor, mode A (rf=1, even shards): writes through ExecuteTransaction (confirmed at once); mode B (rf=3, odd shards): the harness plays coordinator through ReplicateWrite (stored at count 0) + ConfirmTransaction (quorum count) issued in batches, in order or shuffled, with delays. Per run on 1-3 fresh partitions: 3-14 history transactions, then 1-3 subscriptions (Partition, Partitions with explicit starts and fallback, Stream, Streams; start 0 / middle / end / latest; window 1/3/50/1000), 10-50 live writes (thorough: every 10th run 1200-1800 writes to overflow the 1000-slot broadcast channel), subscriber acknowledging with random lag and stalls. Online monitor on the mpsc receiver handed to Subscribe: cursor consecutive, event is a written event with equal content, matches the subscription, not delivered twice, position = previous+1 (first = start), partition sequence below the prefix for which confirmations had been issued, outstanding <= window; at quiescence every confirmed matching event from the start must have arrived (nothing delivered for 3 s after everything was acknowledged = lost). Directed (mode B, hook H5): a stream history of 110-170 commits with the watermark inside the first 50-commit history batch; the subscription is held at the top of its second history batch while everything is confirmed. non-trivial = distinct (run, subscription, window); directed (rf=3 shards) multi-partition form of the history window: one Partitions subscription over P (110-170 commits, watermark inside its first 50-commit batch) and Q (60-120 confirmed commits) is held by hook sub.history.batch at the top of its second batch while the rest of P is confirmed",
        "assumptions": A_COMMON + ["'from latest' subscriptions are checked for order, gaps, duplicates, confirmation and window only (their lower bound is not specified tightly enough to assert)", "liveness is restated as bounded progress: confirmed, everything acknowledged, 3 s without delivery"],
        "quick": {"shards": 16, "budget_s": 45, "min_evals": 500, "min_counters": {"deliveries_checked": 50000, "long_history_cases": 16, "subscriptions.streams": 300, "subscriptions.partitions": 300}},
        "thorough": {"shards": 32, "parallel": 16, "budget_s": 300, "min_evals": 5000},
    },
    "C21": {
        "engine": "vp-resp", "level": "exploration",
        "rule": "three seeded case families through the server's own parsers exactly as Command::handle runs them (Command::try_from on the command name, then <Cmd>::parser().skip(eof()) on the argument array of bulk strings). doc: a form of the documented grammar (README command reference + doc comments of request/*.rs) for EAPPEND EMAPPEND EGET ESCAN EPSCAN ESVER EPSEQ ESUB EPSUB EACK HELLO PING, every subset of the optional clauses, 1-5 EMAPPEND events / ESUB streams / EPSUB partitions, FROM <n> | FROM LATEST | FROM MAP ... [DEFAULT n], numbers from {0,1,65535,65536,u32::MAX-1..+1,i64::MAX-1..+1,u64::MAX-1,u64::MAX} or small, stream ids of 1 and 64 bytes (ascii and multi-byte), numeric, keyword-prefixed, with spaces; written in a seeded style: command and keyword case upper/lower/mixed, optional clauses permuted, uuids hyphenated/simple/upper-case; oracle = equality of every public field of the parsed request with the request the role-annotated tokens denote (ESub/EPSub: matcher and window_size), and no keyword may appear among the parsed stream ids / event names. near-miss: one mutation that leaves the grammar (keyword without value, FROM MAP without pairs, repeated option, negative/overflowing/garbage number, malformed uuid, trailing token, missing positional, stream id of 0 or 65 bytes, partition id > 65535, malformed map pair, DEFAULT without MAP); oracle = parse error. client: the argument array emitted by every command builder of sierradb-client (CmdExt on redis::Cmd, read back with args_iter) and by every SubscriptionManager method (run against a loopback recorder inside the engine that answers canned replies) must parse into the request the call denotes. A violating documented form is minimised before it is signed. non-trivial = distinct token list that has >= 2 optional clauses or >= 2 events/streams, or is a near miss, or is a client-emitted array",
        "assumptions": A_COMMON + [
            "stream ids and event names that are themselves keywords (or '-', '+', '*') are not generated: the grammar is ambiguous for them; stream ids never contain '='",
            "optional clauses are accepted in any order (property quantifier); the documentation only shows one order, so order violations carry their own signature (order=...)",
            "WINDOW 0, '+' as range start / '-' as range end and number spellings such as '+5' or '007' are not asserted either way (not documented)",
            "client calls whose target cannot be written in the documented grammar (partition selected by key, 'a-b' partition ranges) are only required to be accepted",
            "requests are arrays of bulk strings (what redis clients send); other RESP frame types as arguments are not generated",
        ],
        "quick": {"shards": 8, "budget_s": 30, "min_evals": 100000, "min_nontrivial": 20000,
                  "min_counters": {"client.subscribe_to_partitions": 50, "client.eappend": 500, "near_miss.missing-value": 500, "doc.ESUB": 5000}},
        "thorough": {"shards": 16, "budget_s": 150, "min_evals": 5000000, "min_nontrivial": 200000, "extras": ["miri_resp"]},
    },
    "C22": {
        "engine": "vp-resp", "level": "exploration", "needs_server": ["dev"],
        "rule": "per shard several histories, each against a fresh real sierradb server process (the binary built from /repo; single node, replication factor 1, cluster listener and mDNS off, generated TOML config: strict_versioning on/off, 1/2/4 buckets, 1-32 partitions, 128 KiB-1 MiB segments, compression on/off, loopback port). 2-4 RESP3 connections (own encoder/decoder) are driven one command at a time from a seeded generator: EAPPEND and EMAPPEND (new/existing streams, several streams sharing a partition key, 1-4 events per transaction over 1-3 streams, expected version right / off by one / empty / exists / any / omitted / u64::MAX, timestamps 0, 1, now, 2^63/10^6 -1/0/+1 ms, u64::MAX/10^6 and +1, u64::MAX, event ids generated / explicit with and without the key's hash, payload and metadata 0 B-60 KiB incl. CR LF NUL 0xFF, same stream id under another partition key), EGET (known/unknown ids, simple/hyphenated), ESCAN and EPSCAN (start -/0/inside/last/last+1/u64::MAX, end +/last/beyond/u64::MAX/inside/before start, COUNT omitted/0/1/2/3/100/u64::MAX, partition by id or key), ESVER, EPSEQ, PING, HELLO, invalid requests (unknown command, + as range start, - as range end, HELLO 2, EACK for an unknown subscription, grammar near misses of the commands whose parser rejects them), and subscription scenarios on a dedicated connection (EPSUB single / list with FROM MAP DEFAULT / * / latest, ESUB single latest / FROM n / two streams, WINDOW 1/2/3/50/1000, EACK, 1-3 live appends). Oracle: the reference event-store model (vpc::model) fed with the same requests, partition key = uuid v5(NAMESPACE_PARTITION_KEY, stream id) unless given, partition = key hash mod partition count, strict versioning per config: accept/reject of every append; every field of append replies incl. per-event stream versions and first/last sequences; EGET/ESCAN/EPSCAN event maps field by field (transaction id consistent per transaction); scans return exactly the first min(COUNT, matching) events and has_more is never false while matching events remain; ESVER/EPSEQ values; pushes in cursor order equal to the model's events per stream/partition, none beyond last_ack+WINDOW, none missing within 2.5 s; every invalid request answered with an error reply; after EVERY error reply PING on the same connection answers +PONG; a closed connection or a dead server process is a violation. An append whose connection was lost is resolved by reading the partition tail. non-trivial = distinct command that depends on state: append to an existing stream or refused append, every EMAPPEND, scan over >= 2 matching events, invalid request, subscription scenario",
        "assumptions": A_COMMON + [
            "commands are issued one at a time (the connections alternate, they do not race): the model is sequential",
            "an explicit EVENT_ID that does not carry the partition key's hash may be refused or accepted (not documented); partition ids >= partition count are not used",
            "a PARTITION_KEY given on a read is the key the stream was written with",
            "has_more may be true although nothing follows (only the hiding direction is asserted)",
            "for subscriptions without a start position only events appended after the subscribe reply are required; receiving events stored before the subscription existed is reported under its own signature (latest-subscription-replays-older-events)",
            "a reply not received within 20 s is inconclusive, not a violation",
            "quick tier runs the debug server only; thorough alternates debug and release servers",
        ],
        "quick": {"shards": 12, "budget_s": 40, "min_evals": 6000, "min_nontrivial": 2000,
                  "min_counters": {"appends_accepted": 1000, "escan_compared": 300, "epscan_compared": 300, "pushes_checked": 500, "ping_after_error_ok": 1000, "subscription_scenarios": 40, "histories.strict": 3, "histories.non_strict": 3}},
        "thorough": {"needs_server": ["dev", "release"], "shards": 16, "budget_s": 240, "min_evals": 60000, "min_nontrivial": 25000,
                     "min_counters": {"histories.release": 8, "histories.dev": 8}},
    },
    "C10": {
        "engine": "vp-multinode", "level": "exploration", "needs_server": ["release"],
        "rule": "per run a real cluster: 3 or (1 run in 3) 5 sierradb server processes (release build of /repo's working tree, hooks on), loopback libp2p (mDNS off, peers dialled through the VerifDial hook), replication factor 3 (quorum 2) or, on half of the 5-node clusters, 5 (quorum 3), 8 partitions, 4 buckets, 256 KiB segments, heartbeat 300 ms / timeout 1.5 s, replication buffer 200 / 2 s, optional coordinator delays of 20/80 ms between local append and replication and of 30/120 ms between reaching quorum and recording the confirmation (hooks coord.after_local_append, coord.before_confirm). 4-8 client threads write EAPPEND (and 1 in 5 EMAPPEND transactions of 2-3 events) with unique explicit event ids to 6 streams on 3 hot partitions through random nodes for 12 s (thorough 25 s) while a nemesis picks a victim every 0.4-1.6 s: kill -9 and restart after 0.3-1.8 s (40 %; memory lost, disk kept, new alive_since => the coordinator of its partitions changes), SIGSTOP (40 %, half of them aimed at the node that has been up longest = the current leader) for 1.8-3.3 s then SIGCONT (the node is timed out by the others and wakes up with the old membership => two coordinators), or idle; on 5-node clusters two thirds of the faults take two nodes down at once (kill or pause each) for 3.5-5 s, so that an rf-5 partition is left with exactly its quorum. Replies lost to a crash stay indeterminate. Then faults stop, all nodes are restarted/continued, the cluster settles, all processes are killed and every node's data directory is opened (a copy) with the library and every partition log dumped with its confirmation counts. Oracle C10: for every (partition, sequence) the records that carry a confirmation count >= quorum on any node are the same transaction and event on all of them; the confirmed prefixes (longest prefix of count >= quorum) of any two nodes agree event for event. non-trivial = distinct run in which a partition was coordinated by more than one node and some writes failed",
        "assumptions": A_COMMON + [
            "message delay/loss/duplication is whatever process crashes, pauses and libp2p produce between real processes on loopback; single replication messages are not reordered individually here (C12 does that in-process)",
            "cluster start-up is staggered and retried: a start-up race in TopologyManager::handle_ownership_response (a partial view overwriting a node's own replica entry) makes a cluster unwritable; that is an availability defect outside C10/C11 (DESIGN.md)",
            "a cluster that does not accept a probe write through every node after three start attempts is inconclusive",
        ],
        "quick": {"shards": 8, "parallel": 8, "budget_s": 45, "watchdog_s": 600, "min_evals": 300, "min_nontrivial": 2,
                  "min_counters": {"clusters_formed": 4, "nemesis.kill9_restart": 4, "client_acks": 300, "replica_applied_events": 300}},
        "thorough": {"shards": 8, "parallel": 8, "budget_s": 600, "watchdog_s": 1800, "min_evals": 10000, "min_nontrivial": 15,
                     "min_counters": {"clusters_formed": 40, "nemesis.two_nodes_down": 10}},
    },
    "C11": {
        "engine": "vp-multinode", "level": "exploration", "needs_server": ["release"],
        "rule": "per run a real cluster: 3 or (1 run in 3) 5 sierradb server processes (release build of /repo's working tree, hooks on), loopback libp2p (mDNS off, peers dialled through the VerifDial hook), replication factor 3 (quorum 2) or, on half of the 5-node clusters, 5 (quorum 3), 8 partitions, 4 buckets, 256 KiB segments, heartbeat 300 ms / timeout 1.5 s, replication buffer 200 / 2 s, optional coordinator delays of 20/80 ms between local append and replication and of 30/120 ms between reaching quorum and recording the confirmation (hooks coord.after_local_append, coord.before_confirm). 4-8 client threads write EAPPEND (and 1 in 5 EMAPPEND transactions of 2-3 events) with unique explicit event ids to 6 streams on 3 hot partitions through random nodes for 12 s (thorough 25 s) while a nemesis picks a victim every 0.4-1.6 s: kill -9 and restart after 0.3-1.8 s (40 %; memory lost, disk kept, new alive_since => the coordinator of its partitions changes), SIGSTOP (40 %, half of them aimed at the node that has been up longest = the current leader) for 1.8-3.3 s then SIGCONT (the node is timed out by the others and wakes up with the old membership => two coordinators), or idle; on 5-node clusters two thirds of the faults take two nodes down at once (kill or pause each) for 3.5-5 s, so that an rf-5 partition is left with exactly its quorum. Replies lost to a crash stay indeterminate. Then faults stop, all nodes are restarted/continued, the cluster settles, all processes are killed and every node's data directory is opened (a copy) with the library and every partition log dumped with its confirmation counts. Oracle C11: every event of every write acknowledged to a client (reply map with partition id and sequence) is stored at exactly that sequence on >= quorum nodes; some node stores it with a confirmation count >= quorum, and the node that coordinated it (hook H7 'coordinated' event matched by transaction id) does; after the faults stop, EGET of a sample of 40 acknowledged events through every node never returns the event at another partition/sequence. non-trivial = distinct run in which a partition was coordinated by more than one node and some writes failed",
        "assumptions": A_COMMON + [
            "same cluster, workload and nemesis as C10",
            "after the faults stop a lagging replica may still answer 'not found' for an acknowledged event (its catch-up or watermark is behind): eventual readability through every node is liveness the property does not state, so it is counted (egets_after_heal.not_found_on_lagging_node), not asserted",
            "a cluster that does not accept a probe write through every node after three start attempts is inconclusive",
        ],
        "quick": {"shards": 8, "parallel": 8, "budget_s": 45, "watchdog_s": 600, "min_evals": 300, "min_nontrivial": 2,
                  "min_counters": {"clusters_formed": 4, "nemesis.kill9_restart": 4, "acks_matched_to_coordinator": 300, "acked_multi_event_transactions": 20}},
        "thorough": {"shards": 8, "parallel": 8, "budget_s": 600, "watchdog_s": 1800, "min_evals": 10000, "min_nontrivial": 15,
                     "min_counters": {"clusters_formed": 40, "nemesis.two_nodes_down": 10}},
    },
}


# ---- caps --------------------------------------------------------------------------------------------------------------------
# Minimum-observation thresholds exist to make a run that observed (almost) nothing inconclusive, not to measure the
# machine: each is capped at a quarter of what a clean pass on an idle 16-core machine observed (observed_<tier>.json,
# written by cap_thresholds.py from the evidence files).
def _apply_caps():
    import json as _json, os as _os
    here = _os.path.dirname(_os.path.abspath(__file__))
    for tier in ("quick", "thorough"):
        path = _os.path.join(here, f"observed_{tier}.json")
        if not _os.path.exists(path):
            continue
        obs = _json.load(open(path))
        for prop, o in obs.items():
            t = CHECKS.get(prop, {}).get(tier)
            if not t:
                continue
            if "min_evals" in t:
                t["min_evals"] = max(1, min(t["min_evals"], o["evaluations"] // 4))
            if "min_nontrivial" in t:
                t["min_nontrivial"] = max(2, min(t["min_nontrivial"], o["distinct_nontrivial"] // 4))
            mc = t.get("min_counters")
            if mc is None and tier == "quick" and "min_counters" in CHECKS[prop]:
                mc = t["min_counters"] = dict(CHECKS[prop]["min_counters"])
            for k in list(mc or {}):
                mc[k] = max(1, min(mc[k], o["counters"].get(k, 0) // 4)) if o["counters"].get(k, 0) >= 4 else 1


_apply_caps()
