#!/usr/bin/env python3
"""Record what the current evidence files observed (per property and tier) into observed_<tier>.json.
checks_config.py caps every minimum-observation threshold at a quarter of these numbers, so that a check on a
machine four times slower (or busier) than the one this was measured on still reaches them, while a run that
observes (almost) nothing stays inconclusive.  Run after a clean pass:  ./cap_thresholds.py quick|thorough"""
import json, os, sys
tier = sys.argv[1]
here = os.path.dirname(os.path.abspath(__file__))
out = {}
path = os.path.join(here, f"observed_{tier}.json")
if os.path.exists(path):
    out = json.load(open(path))
for f in sorted(os.listdir(os.path.join(here, "evidence"))):
    e = json.load(open(os.path.join(here, "evidence", f)))
    c = e["coverage"]
    # a run that is inconclusive only because it stayed below the thresholds still tells what the machine observes
    only_thresholds = c["verdict"] == "inconclusive" and all(
        r.startswith("only ") or r.startswith("counter ") for r in c.get("inconclusive_reasons", []))
    if e["tier"] != tier or not (c["verdict"] == "held" or only_thresholds) or c.get("replay_run") or e.get("violations"):
        continue
    out[e["property_id"]] = {"evaluations": c["evaluations"], "distinct_nontrivial": c["distinct_nontrivial"],
                             "counters": {k: v for k, v in c["counters"].items() if isinstance(v, int)}, "seed": e["seed"]}
json.dump(out, open(path, "w"), indent=1, sort_keys=True)
print(f"{path}: {len(out)} properties")
