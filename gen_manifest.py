#!/usr/bin/env python3
"""Regenerates MANIFEST.json from checks_config.py (claimed checks) and
properties.jsonl (everything else goes to not_applicable with a reason)."""
import json, os, subprocess
from checks_config import CHECKS

HERE = os.path.dirname(os.path.abspath(__file__))
props = [json.loads(l) for l in open(os.path.join(HERE, "properties.jsonl"))]

LEVEL_TEXT = {
    "exploration": "runtime monitoring: the shipped code is executed on generated/enumerated inputs, histories and schedules and an independent oracle judges every observation; held on what was observed, not a proof",
    "fault_enumeration": "runtime monitoring with injected faults: crash states / message faults are produced on the real files or processes and the real code is re-run on each; the oracle judges every recovered state; held on the enumerated fault points, not a proof",
}

NOT_YET = {}
try:
    NOT_YET = json.load(open(os.path.join(HERE, "not_applicable.json")))
except Exception:
    pass

def hooks_commits():
    try:
        out = subprocess.run(["git", "-C", "/repo", "log", "--format=%h %s"], capture_output=True, text=True).stdout
        return [l.split()[0] for l in out.splitlines() if l.split(" ", 1)[1].startswith("verif hooks")]
    except Exception:
        return []

checks = []
for p in props:
    pid = p["id"]
    if pid not in CHECKS:
        continue
    c = CHECKS[pid]
    checks.append({
        "property_id": pid,
        "quick_cmd": f"./check {pid} --tier quick",
        "thorough_cmd": f"./check {pid} --tier thorough",
        "evidence_file": f"/verif/evidence/{pid}.json",
        "replay_cmd_template": f"./check {pid} --replay {{path}}",
        "engine": c["engine"],
        "level_claimed": {
            "category": c["level"],
            "text": c.get("level_text", LEVEL_TEXT[c["level"]]),
            "design_ref": f"DESIGN.md section 4, {pid}",
        },
        "level_note": "; ".join(c.get("assumptions", [])),
        "technique": c.get("technique", "runtime monitoring: real code under generated workloads, oracle over observed events"),
    })

na = []
for p in props:
    if p["id"] not in CHECKS:
        na.append({"property_id": p["id"], "reason": NOT_YET.get(p["id"], "no check is registered for this property in this revision of /verif (engine not built yet; plan in DESIGN.md section 9)")})

engines = {}
for pid, c in CHECKS.items():
    engines.setdefault(c["engine"], []).append(pid)

manifest = {
    "version": 1,
    "setup_cmd": "./setup.sh",
    "hooks": {
        "guard": "sierradb_verif",
        "enable": "rustc --cfg sierradb_verif, set in /verif/harness/.cargo/config.toml ([build] rustflags); the harness links /repo/crates/* by path",
        "baseline_off_cmd": "cd /repo && cargo test --workspace --no-fail-fast --offline",
        "source_commits": hooks_commits(),
        "add_only": True,
    },
    "engines": [{"name": e, "path": f"/verif/harness/{e}", "serves_properties": sorted(ps),
                 "kind_free_text": "Rust binary linking the crates under /repo by path; run in shards by ./check"} for e, ps in sorted(engines.items())],
    "checks": checks,
    "not_applicable": na,
    "notes": "Driver: ./check <ID> --tier quick|thorough [--replay FILE]; exit 0 held / 1 VIOLATION / 2 inconclusive. Known findings: KNOWN_FINDINGS.txt. Design: DESIGN.md.",
}
json.dump(manifest, open(os.path.join(HERE, "MANIFEST.json"), "w"), indent=1)
print(f"claimed {len(checks)} not_applicable {len(na)}")
