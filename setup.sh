#!/bin/sh
# MANIFEST.setup_cmd: build every engine and the real server binary offline from files on disk only
# (both are rebuilt from /repo's working tree by every check; this only warms the target directories).
set -e
cd "$(dirname "$0")/harness"
export CARGO_NET_OFFLINE=true
[ -f Cargo.lock ] || cp /repo/Cargo.lock Cargo.lock
cargo build --offline --workspace 2>&1 | tail -3
cargo build --offline --release -p vp-pure 2>&1 | tail -1
cargo build --offline --manifest-path /repo/Cargo.toml -p sierradb-server --bin sierradb --target-dir "$(pwd)/target-server" 2>&1 | tail -1
cargo build --offline --release --manifest-path /repo/Cargo.toml -p sierradb-server --bin sierradb --target-dir "$(pwd)/target-server" 2>&1 | tail -1
