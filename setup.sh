#!/bin/sh
# MANIFEST.setup_cmd: build the harness offline from files on disk only.
set -e
cd "$(dirname "$0")/harness"
export CARGO_NET_OFFLINE=true
[ -f Cargo.lock ] || cp /repo/Cargo.lock Cargo.lock
cargo build --offline --workspace 2>&1 | tail -3
cargo build --offline --release -p vp-pure 2>&1 | tail -1
