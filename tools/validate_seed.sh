#!/bin/bash
# validate_seed.sh <seed dir> <demo destination (relative to worktree)> <crate> <test name> [crates whose tests must pass...]
# In scratch worktree /tmp/wtV: the demo must FAIL with patch.diff and PASS without; the crates' own tests must pass with it.
set -u
D=$1; DEST=$2; CRATE=$3; TEST=$4; shift 4
WT=/tmp/wtV
export CARGO_NET_OFFLINE=true
cd $WT && git checkout -q -- . && git clean -fdq -e target
mkdir -p $(dirname $DEST); cp $D/demo.rs $DEST
cargo test --offline -j 8 -p $CRATE --test $TEST > /tmp/val_without.log 2>&1; W=$?
git apply $D/patch.diff || { echo "PATCH DOES NOT APPLY"; exit 2; }
cargo test --offline -j 8 -p $CRATE --test $TEST > /tmp/val_with.log 2>&1; P=$?
echo "demo without patch: exit $W   with patch: exit $P"
grep -h "test result\|panicked" /tmp/val_with.log | head -5
rm -f $DEST
T=0
for c in "$@"; do
  cargo test --offline -j 8 -p $c > /tmp/val_tests_$c.log 2>&1; r=$?
  echo "tests of $c with patch: exit $r  $(grep -h 'test result' /tmp/val_tests_$c.log | awk '{p+=$4; f+=$6} END {print p" passed "f" failed"}')"
  grep -h "^test .* FAILED" /tmp/val_tests_$c.log | head
  [ $r -ne 0 ] && T=1
done
git checkout -q -- . && git clean -fdq -e target
if [ $W -eq 0 ] && [ $P -ne 0 ] && [ $T -eq 0 ]; then echo "VALID"; else echo "NOT-VALID"; fi
