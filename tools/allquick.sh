#!/bin/sh
cd "$(dirname "$0")/.."
seed=${1:-1}
for p in C01 C02 C03 C04 C05 C06 C07 C08 C09 C10 C11 C12 C13 C14 C15 C16 C17 C18 C19 C20 C21 C22 C23 C24 C25 C26; do
  s=$(date +%s)
  out=$(./check $p --seed $seed 2>&1)
  rc=$?
  e=$(( $(date +%s) - s ))
  echo "$p seed=$seed rc=$rc ${e}s $(echo "$out" | grep -E '^(HELD|VIOLATION|INCONCLUSIVE)' | head -3 | cut -c1-200 | tr '\n' '|')"
done
