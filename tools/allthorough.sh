#!/bin/sh
cd "$(dirname "$0")/.."
seed=${1:-1}
for p in C23 C25 C21 C13 C14 C26 C24 C17 C18 C01 C02 C03 C04 C05 C06 C15 C16 C19 C20 C07 C08 C09 C12 C22 C10 C11; do
  s=$(date +%s)
  out=$(./check $p --tier thorough --seed $seed 2>&1)
  rc=$?
  e=$(( $(date +%s) - s ))
  echo "$p seed=$seed rc=$rc ${e}s $(echo "$out" | grep -E '^(HELD|VIOLATION|INCONCLUSIVE|  violation|miri:|asan:|tsan:|strace:)' | head -6 | cut -c1-300 | tr '\n' '|')"
done
