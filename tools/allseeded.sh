#!/bin/sh
cd "$(dirname "$0")/.."
for d in seeded/C*; do
  n=$(basename $d)
  r=$(./run_seeded.py $d 2>&1 | tail -1)
  echo "$n $r"
done
