"""Secondary monitors for the thorough tier: the same engines, rebuilt from /repo's working tree,
run under a compiler sanitizer, the Miri interpreter or strace.

Every function returns {"violations": [...], "inconclusive": [...], plus observation counters}.
A sanitizer/interpreter report is a violation of the property whose workload produced it (signature
= tool + first frames inside /repo); trouble with the tool itself (build failure, time-out, no output)
is inconclusive, never a verdict.
"""
import json
import os
import re
import shutil
import subprocess
import time
from concurrent.futures import ThreadPoolExecutor

TARGET = "x86_64-unknown-linux-gnu"
CFG = "--cfg sierradb_verif"

SAN = {
    "asan": {
        "rustflags": f"{CFG} -Zsanitizer=address -Cforce-frame-pointers=yes",
        "build_std": False,
        # every Database deliberately leaks its reader pool (see store.rs): leak detection off
        "env": {"ASAN_OPTIONS": "detect_leaks=0:halt_on_error=1:abort_on_error=0:exitcode=67:symbolize=1"},
        "marker": "ERROR: AddressSanitizer",
        "exitcode": 67,
    },
    "tsan": {
        "rustflags": f"{CFG} -Zsanitizer=thread",
        "build_std": True,
        "env": {"TSAN_OPTIONS": "halt_on_error=0:exitcode=66:second_deadlock_stack=1:history_size=4:suppressions=" + os.path.join(os.path.dirname(os.path.abspath(__file__)), "tsan.supp")},
        "marker": "WARNING: ThreadSanitizer",
        "exitcode": 66,
    },
}


def _tier_opts(prop, tier):
    from checks_config import CHECKS  # late import: checks_config imports this module
    return dict(CHECKS[prop][tier].get("opts", {}))


def _build(harness, env, engine, kind, log):
    t0 = time.time()
    e = dict(env)
    e["CARGO_PROFILE_DEV_DEBUG"] = "1"
    if kind == "miri":
        e["RUSTFLAGS"] = CFG
        e["MIRIFLAGS"] = "-Zmiri-disable-isolation"
        # `cargo miri run` builds and runs in one step; build here by running the engine with an unknown property
        cmd = ["cargo", "+nightly", "miri", "run", "-q", "-p", engine, "--target-dir", os.path.join(harness, "target-miri"),
               "--", "--prop", "NONE", "--out", os.devnull]
        p = subprocess.run(cmd, cwd=harness, env=e, capture_output=True, text=True, timeout=3600)
        # the engine exits non-zero / writes nothing for an unknown property: only compile errors matter here
        ok = "error: could not compile" not in p.stderr and "error[E" not in p.stderr
        log(f"built {engine} (miri) in {time.time() - t0:.0f}s")
        return (None if not ok else "miri"), p.stderr[-4000:]
    s = SAN[kind]
    e["RUSTFLAGS"] = s["rustflags"]
    tdir = os.path.join(harness, f"target-{kind}")
    cmd = ["cargo", "+nightly", "build", "--target", TARGET, "-p", engine, "--target-dir", tdir]
    if s["build_std"]:
        cmd.insert(3, "-Zbuild-std")
    p = subprocess.run(cmd, cwd=harness, env=e, capture_output=True, text=True, timeout=3600)
    log(f"built {engine} ({kind}) in {time.time() - t0:.0f}s")
    if p.returncode != 0:
        return None, p.stderr[-4000:]
    return os.path.join(tdir, TARGET, "debug", engine), ""


_FRAME = re.compile(r"#\d+ (?:0x[0-9a-f]+ in )?(.+?) (/[^ :]+):(\d+)")


def _report_sig(block):
    """first two frames inside /repo (function names, line numbers dropped)"""
    frames = []
    for m in _FRAME.finditer(block):
        fn, path = m.group(1), m.group(2)
        if "/repo/crates/" in path:
            fn = re.sub(r"::h[0-9a-f]{16}$", "", fn)
            fn = re.sub(r"\{\{closure\}\}", "closure", fn)
            frames.append(f"{fn}@{path.split('/repo/crates/')[1]}")
        if len(frames) == 2:
            break
    return "|".join(frames) if frames else "no-frame-in-repo"


def _split_reports(text, marker):
    out = []
    idx = [m.start() for m in re.finditer(re.escape(marker), text)]
    for i, a in enumerate(idx):
        b = idx[i + 1] if i + 1 < len(idx) else len(text)
        out.append(text[a:b][:6000])
    return out


def _run_shards(binary, kind, prop, tier, seed, shards, budget, workroot, env, extra_opts, log, parallel=8, miri=None):
    wdir = os.path.join(workroot, f"extra-{kind}")
    os.makedirs(wdir, exist_ok=True)
    opts = _tier_opts(prop, tier)
    opts.update(extra_opts)

    def one(i):
        out = os.path.join(wdir, f"out-{i}.json")
        args = ["--prop", prop, "--tier", tier, "--seed", str(seed), "--shard", f"{i}/{shards}", "--out", out,
                "--work", os.path.join(wdir, f"w{i}"), "--budget-s", str(budget)]
        for k, v in opts.items():
            args += ["--opt", f"{k}={v}"]
        e = dict(env)
        if miri:
            e["RUSTFLAGS"] = CFG
            e["MIRIFLAGS"] = "-Zmiri-disable-isolation"
            e["CARGO_PROFILE_DEV_DEBUG"] = "1"
            cmd = ["cargo", "+nightly", "miri", "run", "-q", "-p", miri["engine"], "--target-dir",
                   os.path.join(miri["harness"], "target-miri"), "--"] + args
            cwd = miri["harness"]
        else:
            e.update(SAN[kind]["env"])
            cmd = [binary] + args
            cwd = wdir
        os.makedirs(os.path.join(wdir, f"w{i}"), exist_ok=True)
        try:
            p = subprocess.run(cmd, cwd=cwd, env=e, capture_output=True, text=True, errors="replace",
                               timeout=budget * 6 + 600)
            rc, err = p.returncode, p.stderr
        except subprocess.TimeoutExpired as ex:
            rc, err = -999, (ex.stderr or b"").decode(errors="replace") if isinstance(ex.stderr, bytes) else (ex.stderr or "")
        rep = None
        if os.path.exists(out):
            try:
                rep = json.load(open(out))
            except Exception:
                rep = None
        return i, rc, err, rep

    with ThreadPoolExecutor(max_workers=parallel) as ex:
        return list(ex.map(one, range(shards)))


def _sanitizer(kind, engine, shards, budget, extra_opts=None, parallel=8):
    def fn(prop, tier, seed, harness, workroot, env, log):
        res = {"tool": kind, "engine": engine, "violations": [], "inconclusive": []}
        binary, err = _build(harness, env, engine, kind, log)
        if binary is None:
            res["inconclusive"].append(f"{kind} build of {engine} failed: {err[-600:]}")
            return res
        runs = _run_shards(binary, kind, prop, tier, seed, shards, budget, workroot, env, extra_opts or {}, log, parallel)
        marker = SAN[kind]["marker"]
        sigs, evals, finished = {}, 0, 0
        for i, rc, err, rep in runs:
            blocks = _split_reports(err, marker)
            for b in blocks:
                s = _report_sig(b)
                e = sigs.setdefault(s, {"count": 0, "block": b, "shard": i})
                e["count"] += 1
            if rep is not None:
                finished += 1
                evals += rep.get("evaluations", 0)
                # the behavioural oracle also ran inside the instrumented build
                for v in rep.get("violations", []):
                    res["violations"].append({"sig": v["sig"], "what": f"[{kind} build] " + v["what"], "count": v.get("count", 1),
                                              "witness": (v.get("witnesses") or [{}])[0]})
            elif not blocks:
                res["inconclusive"].append(f"{kind} shard {i} produced no report (exit {rc}): {err[-300:]}")
        for s, e in sigs.items():
            res["violations"].append({
                "sig": f"{prop}:{kind}:{s}", "count": e["count"],
                "what": f"{marker} while running the {prop} workload of {engine}: " + " / ".join(e["block"].splitlines()[:14]),
                "witness": {"tool": kind, "shard": e["shard"], "seed": seed, "report": e["block"]},
            })
        res.update({"shards": shards, "shards_finished": finished, "evaluations_under_tool": evals,
                    "distinct_reports": len(sigs), "reports": sum(e["count"] for e in sigs.values())})
        log(f"{kind}: {finished}/{shards} shards finished, {evals} evaluations under the tool, {len(sigs)} distinct reports")
        if finished and evals == 0:
            res["inconclusive"].append(f"{kind}: the instrumented workload evaluated nothing")
        return res
    return fn


def _miri(engine, shards, budget, extra_opts, parallel=16):
    def fn(prop, tier, seed, harness, workroot, env, log):
        res = {"tool": "miri", "engine": engine, "violations": [], "inconclusive": []}
        ok, err = _build(harness, env, engine, "miri", log)
        if ok is None:
            res["inconclusive"].append(f"miri build of {engine} failed: {err[-600:]}")
            return res
        runs = _run_shards(None, "miri", prop, tier, seed, shards, budget, workroot, env, extra_opts, log, parallel,
                           miri={"engine": engine, "harness": harness})
        sigs, evals, finished = {}, 0, 0
        for i, rc, err, rep in runs:
            m = re.search(r"error: (Undefined Behavior|unsupported operation|memory leaked|abnormal termination|deadlock)[^\n]*", err)
            if m and m.group(1) in ("Undefined Behavior", "deadlock"):
                block = err[m.start():m.start() + 5000]
                where = re.findall(r"--> (/repo/crates/[^:\n]+)", block)
                s = f"{m.group(1).replace(' ', '-')}:{where[0].split('/repo/crates/')[1] if where else 'outside-repo'}"
                e = sigs.setdefault(s, {"count": 0, "block": block, "shard": i})
                e["count"] += 1
                continue
            if rep is not None:
                finished += 1
                evals += rep.get("evaluations", 0)
                for v in rep.get("violations", []):
                    res["violations"].append({"sig": v["sig"], "what": "[miri] " + v["what"], "count": v.get("count", 1),
                                              "witness": (v.get("witnesses") or [{}])[0]})
            else:
                res["inconclusive"].append(f"miri shard {i} produced no report (exit {rc}): {err[-400:]}")
        for s, e in sigs.items():
            res["violations"].append({
                "sig": f"{prop}:miri:{s}", "count": e["count"],
                "what": f"Miri while running the {prop} workload of {engine}: " + " / ".join(e["block"].splitlines()[:12]),
                "witness": {"tool": "miri", "shard": e["shard"], "seed": seed, "report": e["block"]},
            })
        res.update({"shards": shards, "shards_finished": finished, "evaluations_under_tool": evals, "distinct_reports": len(sigs)})
        log(f"miri: {finished}/{shards} shards finished, {evals} evaluations interpreted, {len(sigs)} distinct reports")
        if evals == 0 and not sigs:
            res["inconclusive"].append("miri: nothing was interpreted")
        return res
    return fn


def strace_fsync(prop, tier, seed, harness, workroot, env, log):
    """C01: validates hook H1 (seglog.synced) against the kernel.  One shard of the C01 workload runs under
    `strace -f -e trace=fdatasync,fsync`; the engine reports how many sync hook events it saw (counter
    sync_hook_events), strace how many sync system calls completed.  Every hook event is emitted after a
    sync_data() call returned, so hook events <= successful sync syscalls must hold; a hook event without a
    system call would mean the monitor's notion of 'durable' is not the kernel's."""
    res = {"tool": "strace", "violations": [], "inconclusive": []}
    binary = os.path.join(harness, "target", "debug", "vp-store")
    if not os.path.exists(binary):
        res["inconclusive"].append("vp-store binary missing")
        return res
    wdir = os.path.join(workroot, "extra-strace")
    os.makedirs(os.path.join(wdir, "w"), exist_ok=True)
    out = os.path.join(wdir, "out.json")
    trace = os.path.join(wdir, "trace.txt")
    cmd = ["strace", "-f", "-q", "-e", "trace=fdatasync,fsync", "-o", trace, binary, "--prop", prop, "--tier", "quick",
           "--seed", str(seed), "--shard", "0/16", "--out", out, "--work", os.path.join(wdir, "w"), "--budget-s", "20"]
    for k, v in _tier_opts(prop, tier).items():
        cmd += ["--opt", f"{k}={v}"]
    try:
        subprocess.run(cmd, cwd=wdir, env=env, capture_output=True, text=True, timeout=900)
    except subprocess.TimeoutExpired:
        res["inconclusive"].append("strace run timed out")
        return res
    if not (os.path.exists(out) and os.path.exists(trace)):
        res["inconclusive"].append("strace run produced no output")
        return res
    rep = json.load(open(out))
    ok_calls = 0
    failed_calls = 0
    with open(trace, errors="replace") as f:
        for line in f:
            if re.search(r"f(data)?sync\(\d+\)\s+= 0", line) or re.search(r"f(data)?sync resumed>\)\s+= 0", line):
                ok_calls += 1
            elif re.search(r"f(data)?sync.*= -1", line):
                failed_calls += 1
    hook = rep.get("counters", {}).get("sync_hook_events", 0)
    res.update({"sync_syscalls_ok": ok_calls, "sync_syscalls_failed": failed_calls, "sync_hook_events": hook,
                "evaluations_under_tool": rep.get("evaluations", 0)})
    log(f"strace: {ok_calls} successful sync system calls, {hook} seglog.synced hook events, {rep.get('evaluations', 0)} evaluations")
    if hook == 0 or ok_calls == 0:
        res["inconclusive"].append(f"strace cross-check observed nothing (hook events {hook}, sync calls {ok_calls})")
    elif hook > ok_calls:
        res["violations"].append({"sig": f"{prop}:strace:sync-hook-without-system-call", "count": hook - ok_calls,
                                  "what": f"{hook} seglog.synced hook events but only {ok_calls} successful fsync/fdatasync system calls",
                                  "witness": {"tool": "strace", "seed": seed}})
    for v in rep.get("violations", []):
        res["violations"].append({"sig": v["sig"], "what": "[under strace] " + v["what"], "count": v.get("count", 1),
                                  "witness": (v.get("witnesses") or [{}])[0]})
    return res


EXTRAS = {
    "miri_pure": _miri("vp-pure", shards=16, budget=60, extra_opts={"small": 1}),
    "miri_resp": _miri("vp-resp", shards=16, budget=120, extra_opts={"small": 1, "cases": 400}),
    "asan_seglog": _sanitizer("asan", "vp-seglog", shards=8, budget=60),
    "tsan_seglog": _sanitizer("tsan", "vp-seglog", shards=8, budget=60),
    "asan_store": _sanitizer("asan", "vp-store", shards=8, budget=60),
    "tsan_store": _sanitizer("tsan", "vp-store", shards=8, budget=60),
    "tsan_pure": _sanitizer("tsan", "vp-pure", shards=8, budget=40),
    "strace_fsync": strace_fsync,
}
