#!/usr/bin/env python3
"""Apply one seeded defect to /repo, run the property's check, undo the change, record the outcome.

  ./run_seeded.py <dir with patch.diff + meta.json> [--tier quick|thorough] [--props C01,C15]

The patch is applied with `git -C /repo apply` and always reverted with `git -C /repo checkout -- .`
(the seeded changes only modify tracked files).  Result: <dir>/result.json
"""
import json, os, re, subprocess, sys, time

VERIF = os.path.dirname(os.path.abspath(__file__))


def main():
    d = os.path.abspath(sys.argv[1])
    tier = "quick"
    props = None
    for i, a in enumerate(sys.argv):
        if a == "--tier":
            tier = sys.argv[i + 1]
        if a == "--props":
            props = sys.argv[i + 1].split(",")
    meta = json.load(open(os.path.join(d, "meta.json")))
    props = props or [meta["property"]]
    dirty = subprocess.run(["git", "-C", "/repo", "status", "--porcelain"], capture_output=True, text=True).stdout.strip()
    if dirty:
        print("refusing: /repo has uncommitted changes:\n" + dirty)
        return 2
    r = subprocess.run(["git", "-C", "/repo", "apply", os.path.join(d, "patch.diff")], capture_output=True, text=True)
    if r.returncode != 0:
        print("patch does not apply:", r.stderr)
        json.dump({"applied": False, "error": r.stderr}, open(os.path.join(d, "result.json"), "w"), indent=1)
        return 2
    out = {"applied": True, "tier": tier, "checks": {}}
    try:
        for p in props:
            t = time.time()
            c = subprocess.run([os.path.join(VERIF, "check"), p, "--tier", tier, "--no-extras"], capture_output=True, text=True)
            sigs = re.findall(r"violation sig=(\S+) count=(\d+)", c.stdout)
            out["checks"][p] = {"exit": c.returncode, "caught": c.returncode == 1, "signatures": [s for s, _ in sigs][:12],
                                "wall_s": round(time.time() - t), "tail": c.stdout[-1500:] if c.returncode != 1 else ""}
            print(p, "exit", c.returncode, [s for s, _ in sigs][:4])
    finally:
        subprocess.run(["git", "-C", "/repo", "checkout", "--", "."], check=True)
    json.dump(out, open(os.path.join(d, "result.json"), "w"), indent=1)
    return 0


if __name__ == "__main__":
    sys.exit(main())
